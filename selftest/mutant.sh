#!/bin/bash
# usage: mutant.sh <patch.diff> [--tests] <Cxx> [<Cxx> ...]
# Applies the patch to a scratch copy of /repo's working tree (outside /repo and /verif), optionally runs the pinned
# suite there, runs the named checks (quick tier) against the copy, prints one line per check and removes the copy.
patch=$(readlink -f "$1"); shift
tests=0; if [ "$1" = "--tests" ]; then tests=1; shift; fi
name=$(basename "$patch" .diff); [ "$name" = "patch" ] && name=$(basename "$(dirname "$patch")")
dir=$(mktemp -d /tmp/mut_${name}_XXXX)
rsync -a --exclude .git --exclude __pycache__ /repo/ "$dir"/
if ! (cd "$dir" && patch -p1 -s --no-backup-if-mismatch < "$patch" >/dev/null 2>&1); then echo "$name: PATCH-FAILED"; rm -rf "$dir"; exit 2; fi
if [ $tests = 1 ]; then
  (cd "$dir" && PYTHONPATH="$dir" /venv/bin/python -m pytest -q -x -p no:cacheprovider --timeout=900 tests >/tmp/mut_${name}.testlog 2>&1) && echo "$name: pinned-suite PASS" || echo "$name: pinned-suite FAIL ($(tail -1 /tmp/mut_${name}.testlog))"
  rm -f /tmp/mut_${name}.testlog
fi
for pid in "$@"; do
  home=$(cd "$(dirname "$0")/.." && pwd); out=$(cd "$home" && VERIF_REPO="$dir" /venv/bin/python "$home/vcheck.py" "$pid" --tier ${MUT_TIER:-quick} 2>&1); rc=$?
  kinds=$(echo "$out" | grep -o 'kind=[^ ]*' | sort -u | tr '\n' ' ')
  echo "$name: $pid exit=$rc $(echo "$out" | grep -c '^VIOLATION') violation-lines $kinds $(echo "$out" | grep '^INCONCLUSIVE' | head -2 | cut -c1-200)"
done
# evidence files were rewritten by runs against the scratch copy: they are regenerated from /repo before committing
rm -rf "$dir"
