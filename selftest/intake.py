#!/usr/bin/env python3
"""intake.py <src-dir> <seeded-id> <Cxx> [extra check ids...]

Confirms an independently written breaking change (patch.diff + demo.py + meta.json in <src-dir>) in a scratch copy of
/repo's working tree: the patch applies, the pinned suite still passes with it, the demonstration fails with it and
passes without it.  Then runs the named checks (quick tier; VERIF_REPO = the scratch copy) and files everything under
/verif/seeded/<seeded-id>/ with a meta.json that records what was run and which checks flagged the change.
The scratch copy is removed afterwards."""
import json
import os
import shutil
import subprocess
import sys
import tempfile
import time

VERIF = os.path.dirname(os.path.dirname(os.path.abspath(__file__)))
PY = "/venv/bin/python"


def sh(cmd, cwd=None, env=None, timeout=3600):
    p = subprocess.run(cmd, shell=True, cwd=cwd, env=env, stdout=subprocess.PIPE, stderr=subprocess.STDOUT, timeout=timeout)
    return p.returncode, p.stdout.decode(errors="replace")


def main():
    src, sid, pid = sys.argv[1], sys.argv[2], sys.argv[3]
    checks = [pid] + sys.argv[4:]
    tier = os.environ.get("MUT_TIER", "quick")
    patch = os.path.join(src, "patch.diff")
    demo = os.path.join(src, "demo.py")
    meta_in = json.load(open(os.path.join(src, "meta.json"))) if os.path.exists(os.path.join(src, "meta.json")) else {}
    tree = tempfile.mkdtemp(prefix="seed_%s_" % sid, dir="/tmp")
    ran = []
    try:
        sh("rsync -a --exclude .git --exclude __pycache__ --exclude out /repo/ %s/" % tree)
        env = dict(os.environ, PYTHONPATH=tree, PYTHONDONTWRITEBYTECODE="1")
        rc0, out0 = sh("%s %s" % (PY, demo), cwd=tree, env=env, timeout=900)
        ran.append("unpatched tree: %s demo.py -> exit %d" % (PY, rc0))
        rc, out = sh("patch -p1 --no-backup-if-mismatch < %s" % patch, cwd=tree)
        if rc != 0:
            print("PATCH-FAILED", out[-400:])
            return 2
        ran.append("patch -p1 < patch.diff (scratch copy of /repo's working tree)")
        rct, outt = sh("%s -m pytest -q -x -p no:cacheprovider --timeout=900 tests" % PY, cwd=tree, env=env, timeout=1800)
        ran.append("patched tree: pytest tests -> exit %d (%s)" % (rct, outt.strip().splitlines()[-1] if outt.strip() else ""))
        rc1, out1 = sh("%s %s" % (PY, demo), cwd=tree, env=env, timeout=900)
        ran.append("patched tree: demo.py -> exit %d" % rc1)
        confirmed = rc0 == 0 and rct == 0 and rc1 != 0
        print("%s: demo-unpatched=%d suite-patched=%d demo-patched=%d confirmed=%s" % (sid, rc0, rct, rc1, confirmed))
        results = {}
        if confirmed:
            for c in checks:
                t0 = time.time()
                rcc, outc = sh("%s %s/vcheck.py %s --tier %s" % (PY, VERIF, c, tier), cwd=VERIF,
                               env=dict(os.environ, VERIF_REPO=tree), timeout=7200)
                kinds = sorted({w[5:] for line in outc.splitlines() for w in line.split() if w.startswith("kind=")})
                results[c] = dict(exit=rcc, tier=tier, violation_kinds=kinds, wall_s=round(time.time() - t0, 1),
                                  inconclusive=[l[:200] for l in outc.splitlines() if l.startswith("INCONCLUSIVE")][:2])
                ran.append("VERIF_REPO=<patched copy> vcheck.py %s --tier %s -> exit %d %s" % (c, tier, rcc, kinds))
                print("  check %s exit=%d kinds=%s" % (c, rcc, kinds))
        dst = os.path.join(VERIF, "seeded", sid)
        if confirmed:
            os.makedirs(dst, exist_ok=True)
            shutil.copy(patch, os.path.join(dst, "patch.diff"))
            shutil.copy(demo, os.path.join(dst, "demo.py"))
            old = {}
            if os.path.exists(os.path.join(dst, "meta.json")):
                old = json.load(open(os.path.join(dst, "meta.json")))
            checks_all = dict(old.get("checks", {}))
            checks_all.update(results)
            meta = dict(property=pid, summary=meta_in.get("summary"), needs_to_manifest=meta_in.get("needs_to_manifest"),
                        files_touched=meta_in.get("files_touched"), origin="independent sub-agent, given only the property text",
                        confirmed=dict(suite_passes_with_patch=rct == 0, demo_fails_with_patch=rc1 != 0, demo_passes_without_patch=rc0 == 0),
                        what_was_run=ran, checks=checks_all,
                        caught_by=sorted(c for c, r in checks_all.items() if r["exit"] == 1))
            json.dump(meta, open(os.path.join(dst, "meta.json"), "w"), indent=1)
        return 0 if confirmed else 1
    finally:
        shutil.rmtree(tree, ignore_errors=True)


if __name__ == "__main__":
    sys.exit(main())
