#!/bin/bash
# Re-validates the machinery against every kept breaking change: each seeded/<id>/patch.diff and selftest/patches/*.diff is
# applied to a scratch copy and the check of the property it breaks must report a violation (quick tier).
# usage: selftest/run_all.sh [-j N]      (N scratch copies at a time, default 2)
cd "$(dirname "$0")/.."
jobs=2; [ "$1" = "-j" ] && jobs=$2
list=$(mktemp)
for d in seeded/*/; do id=$(basename $d); pid=$(python3 -c "import json;print(json.load(open('$d/meta.json'))['property'])"); echo "$d/patch.diff $pid" >> $list; done
for f in selftest/patches/*.diff; do n=$(basename $f .diff); case $n in
  revert_fix_8927ea2) pid=C07;; revert_fix_0309171) pid=C07;; revert_fix_78c89e8) pid=C01;; revert_fix_e7decff) pid=C10;; revert_fix_3de81c4) pid=C08;;
  revert_fix_4391106) pid=C11;; revert_fix_2b6b417) pid=C03;; revert_fix_bf880bc) pid=C03;; revert_fix_c58f771) pid=C17;; revert_fix_437516b) pid=C17;;
  C17_dead_not_zeroed) continue;;  # equivalent mutant (DESIGN section 5)
  *) pid=${n%%_*};; esac; echo "$f $pid" >> $list; done
cat $list | xargs -P $jobs -L 1 selftest/mutant.sh 2>&1 | grep -v WARNING | tee /tmp/run_all_mutants.log
echo "---- not flagged:"; grep -v "exit=1" /tmp/run_all_mutants.log
rm -f $list
