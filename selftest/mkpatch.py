#!/usr/bin/env python3
"""mkpatch.py <name> <repo-relative file> <old> <new> [<old2> <new2> ...]  -> selftest/patches/<name>.diff against /repo HEAD"""
import difflib, sys, os
name, rel = sys.argv[1], sys.argv[2]
src = open(os.path.join("/repo", rel)).read()
dst = src
pairs = sys.argv[3:]
for i in range(0, len(pairs), 2):
    old, new = pairs[i].encode().decode("unicode_escape"), pairs[i + 1].encode().decode("unicode_escape")
    assert dst.count(old) == 1, (old, dst.count(old))
    dst = dst.replace(old, new)
diff = "".join(difflib.unified_diff(src.splitlines(True), dst.splitlines(True), "a/" + rel, "b/" + rel))
out = os.path.join(os.path.dirname(os.path.abspath(__file__)), "patches", name + ".diff")
mode = "a" if os.environ.get("APPEND") else "w"
open(out, mode).write(diff)
print(out, len(diff.splitlines()), "lines")
