"""M1: runtime contracts on the real dsw functions (icontract, with a small shim when it cannot be imported).

Conditions are *named* functions whose parameters match the decorated function's (plus `result` and `OLD`), always
with an explicit error= factory that builds ContractBroken with the witness.  A contracted function is rebound in every
dsw module namespace that holds a reference, so internal callers go through the contract as well.  Every condition
counts its evaluations; the runner treats zero evaluations as inconclusive.
"""
import functools
import inspect
from collections import Counter

from .base import dsw_modules

try:
    import icontract as _ic
    BACKEND = "icontract " + getattr(_ic, "__version__", "?")
except Exception:  # pragma: no cover - exercised only when the offline install did not happen
    _ic = None
    BACKEND = "shim"

EVALS = Counter()
_installed = []  # (module, name, original)


class ContractBroken(AssertionError):
    def __init__(self, name, witness):
        AssertionError.__init__(self, "%s: %s" % (name, witness))
        self.name = name
        self.witness = witness


def _counting(tag, fn):
    @functools.wraps(fn)
    def wrapper(*a, **k):
        import sys
        EVALS[tag] += 1
        old = sys.get_int_max_str_digits()
        sys.set_int_max_str_digits(0)      # the oracle may convert freely; only the library runs under the trap
        try:
            return fn(*a, **k)
        finally:
            sys.set_int_max_str_digits(old)
    return wrapper


def _error_factory(tag, cond):
    params = [p for p in inspect.signature(cond).parameters if p != "OLD"]

    def make(**kw):
        from .base import short
        return ContractBroken(tag, {k: short(repr(v), 200) for k, v in kw.items()})

    # icontract calls error(**subset of resolved kwargs) by parameter names: build a function with exactly those names
    src = "def _err(%s):\n    return make(%s)\n" % (", ".join(params), ", ".join("%s=%s" % (p, p) for p in params))
    ns = {"make": make}
    exec(src, ns)
    return ns["_err"]


class _Old:
    pass


def _shim_apply(func, requires, ensures, snapshots):
    sig = inspect.signature(func)

    def call_with(cond, env):
        names = inspect.signature(cond).parameters
        return cond(**{n: env[n] for n in names})

    @functools.wraps(func)
    def wrapper(*a, **k):
        bound = sig.bind(*a, **k)
        bound.apply_defaults()
        env = dict(bound.arguments)
        for cond, err in requires:
            if not call_with(cond, env):
                raise call_with(err, env)
        old = _Old()
        for cap, name in snapshots:
            setattr(old, name, call_with(cap, env))
        result = func(*a, **k)
        env["result"] = result
        env["OLD"] = old
        for cond, err in ensures:
            if not call_with(cond, env):
                raise call_with(err, env)
        return result
    return wrapper


def apply(func, tag, requires=(), ensures=(), snapshots=()):
    """Return func wrapped with the given named conditions.  requires/ensures: iterables of condition functions;
    snapshots: iterable of (capture function, name)."""
    req = [(_counting("%s.require.%s" % (tag, c.__name__), c), _error_factory("%s.require.%s" % (tag, c.__name__), c))
           for c in requires]
    ens = [(_counting("%s.ensure.%s" % (tag, c.__name__), c), _error_factory("%s.ensure.%s" % (tag, c.__name__), c))
           for c in ensures]
    if _ic is None:
        return _shim_apply(func, req, ens, list(snapshots))
    out = func
    for cond, err in reversed(ens):
        out = _ic.ensure(cond, error=err)(out)
    for cap, name in snapshots:
        out = _ic.snapshot(cap, name=name)(out)
    for cond, err in reversed(req):
        out = _ic.require(cond, error=err)(out)
    return out


def install(func, tag, requires=(), ensures=(), snapshots=()):
    """Contract `func` and rebind it (by identity) in every dsw module namespace.  Returns the wrapped function."""
    wrapped = apply(func, tag, requires, ensures, snapshots)
    n = 0
    for m in dsw_modules():
        for name, v in list(vars(m).items()):
            if v is func:
                setattr(m, name, wrapped)
                _installed.append((m, name, func))
                n += 1
    if n == 0:
        raise RuntimeError("contract %s: no reference to %r found in the dsw modules" % (tag, func))
    return wrapped


def uninstall_all():
    while _installed:
        m, name, orig = _installed.pop()
        setattr(m, name, orig)
