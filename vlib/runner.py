"""Shard worker, aggregation, three-valued verdict, evidence, replay files, known findings."""
import array
import faulthandler
import hashlib
import importlib
import json
import os
import random
import subprocess
import sys
import tempfile
import time
import traceback
from collections import Counter
from concurrent.futures import ThreadPoolExecutor

from .base import VERIF, REPO, jdump, derive_seed, short

EXIT_HELD, EXIT_VIOLATION, EXIT_INCONCLUSIVE = 0, 1, 2
DEFAULT_SEED = 20261002
KNOWN_FILE = os.path.join(VERIF, "KNOWN_FINDINGS.txt")


class Ctx:
    """What a property module sees while it generates and checks cases in one shard."""

    def __init__(self, pid, tier, seed, shard, nshards, budget_s):
        self.pid, self.tier, self.seed, self.shard, self.nshards = pid, tier, seed, shard, nshards
        self.budget_s = budget_s
        self.special = False     # True for the extra last shard of modules that declare SPECIAL_SHARD
        self.nreg = nshards      # number of regular shards (enumerations are sliced over these)
        self.rng = random.Random(derive_seed(seed, pid, shard))
        import numpy as np
        self.np_rng = np.random.default_rng(derive_seed(seed, pid, shard, "np") % (2 ** 63))
        self.t0 = time.time()
        self.evaluations = 0
        self._hashes = array.array("Q")
        self.classes = Counter()
        self.monitors = Counter()
        self.obs_max = {}
        self.samples = {}
        self.violations = []
        self.violation_count = 0
        self._viol_kinds = Counter()
        self._viol_slots = Counter()
        self.classifier = None
        self.harness_errors = []
        self.truncated = False
        self.exhausted = {}      # name -> bool: finite space fully enumerated by this shard's slice
        self.current = None
        self.notes = {}
        self.sets = {}           # name -> set of hashable JSON-able items, merged by union across shards

    # -- bookkeeping ---------------------------------------------------------------------------------------------
    def quick(self):
        return self.tier == "quick"

    def pick(self, quick, thorough):
        return quick if self.tier == "quick" else thorough

    def time_up(self):
        return time.time() - self.t0 > self.budget_s

    def mine(self, i):
        """Slice an enumeration over the shards."""
        return (not self.special) and i % self.nreg == self.shard

    def cls(self, name, n=1):
        self.classes[name] += n

    def mon(self, name, n=1):
        self.monitors[name] += n

    def setadd(self, name, items):
        self.sets.setdefault(name, set()).update(items)

    def obs(self, name, value):
        if name not in self.obs_max or value > self.obs_max[name]:
            self.obs_max[name] = value

    def done(self, check, case, nontrivial, sample=None):
        """Account for one evaluated case."""
        self.evaluations += 1
        if nontrivial:
            hv = int(hashlib.blake2b(jdump([check, case]).encode(), digest_size=8).hexdigest(), 16)
            self._hashes.append(hv)
            lst = self.samples.setdefault(check, [])
            if len(lst) < 2:
                lst.append(sample if sample is not None else case)

    def fail(self, kind, detail, check=None, case=None):
        """Record a violation of the property (the run continues, to find more)."""
        self.violation_count += 1
        self._viol_kinds[kind] += 1
        cur = self.current or (None, None)
        v = dict(kind=kind, detail=detail, check=check or cur[0], case=case if case is not None else cur[1])
        # at most 3 recorded per (kind, known-finding key): a listed finding must never use up the slots of another
        # mechanism that happens to show under the same kind
        try:
            key = self.classifier(v) if self.classifier is not None else None
        except Exception:  # noqa - a classifier problem must not hide the violation
            key = None
        self._viol_slots[(kind, key)] += 1
        if self._viol_slots[(kind, key)] <= 3 and len(self.violations) < 60:
            self.violations.append(v)

    def result(self):
        import numpy as np
        hs = np.unique(np.frombuffer(self._hashes, dtype=np.uint64)) if len(self._hashes) else np.zeros(0, np.uint64)
        return dict(pid=self.pid, shard=self.shard, evaluations=self.evaluations, classes=dict(self.classes),
                    monitors=dict(self.monitors), obs_max=self.obs_max, samples=self.samples,
                    violations=self.violations, violation_count=self.violation_count,
                    violation_kinds=dict(self._viol_kinds), harness_errors=self.harness_errors[:5],
                    truncated=self.truncated, exhausted=self.exhausted, notes=self.notes,
                    sets={k: sorted(jdump(x) for x in v) for k, v in self.sets.items()},
                    wall_s=time.time() - self.t0), hs


def load_prop(pid):
    if VERIF not in sys.path:
        sys.path.insert(0, VERIF)
    return importlib.import_module("props." + pid)


def run_case(mod, ctx, check, case):
    ctx.current = (check, case)
    try:
        mod.CHECKS[check](ctx, case)
    except (KeyboardInterrupt, SystemExit):
        raise
    except BaseException:
        ctx.harness_errors.append("check %s on %s:\n%s" % (check, short(case, 400), traceback.format_exc()))
    finally:
        ctx.current = None


def worker_main(pid, tier, seed, shard, nshards, budget_s, out):
    faulthandler.enable()
    from .base import import_dsw
    import_dsw()
    mod = load_prop(pid)
    ctx = Ctx(pid, tier, seed, shard, nshards, budget_s)
    ctx.classifier = getattr(load_prop(pid), "classify", None)
    if getattr(mod, "SPECIAL_SHARD", False):
        ctx.nreg = nshards - 1
        ctx.special = shard == nshards - 1
    try:
        if hasattr(mod, "setup"):
            mod.setup(ctx)
        for check, case in mod.generate(ctx):
            run_case(mod, ctx, check, case)
            if ctx.time_up():
                ctx.truncated = True
                break
            if len(ctx.harness_errors) > 20:
                break
        if hasattr(mod, "finish"):
            mod.finish(ctx)
    except BaseException:
        ctx.harness_errors.append("shard driver:\n" + traceback.format_exc())
    res, hs = ctx.result()
    hs.tofile(out + ".hashes")
    with open(out, "w") as f:
        f.write(jdump(res))


# ---------------------------------------------------------------------------------------------------------------------

def read_known():
    findings, fixed = {}, []
    if os.path.exists(KNOWN_FILE):
        for line in open(KNOWN_FILE):
            line = line.strip()
            if line.startswith("finding:"):
                fields = dict(x.split("=", 1) for x in line.split()[1:3])
                findings[(fields.get("property"), fields.get("key"))] = line.split(None, 3)[3] if len(line.split(None, 3)) > 3 else ""
            elif line.startswith("fixed:"):
                fixed.append(line)
    return findings, fixed


def _spawn(pid, tier, seed, shard, nshards, budget_s, out, timeout):
    env = dict(os.environ)
    env.update(PYTHONDONTWRITEBYTECODE="1", PYTHONHASHSEED="0", VERIF_REPO=REPO, PIP_NO_INDEX="1",
               OMP_NUM_THREADS="1", OPENBLAS_NUM_THREADS="1", MKL_NUM_THREADS="1")
    cmd = [sys.executable, os.path.join(VERIF, "vcheck.py"), pid, "--worker", "--tier", tier, "--seed", str(seed),
           "--shard", str(shard), "--nshards", str(nshards), "--budget", str(budget_s), "--out", out]
    t0 = time.time()
    try:
        p = subprocess.run(cmd, env=env, cwd=VERIF, timeout=timeout, stdout=subprocess.PIPE, stderr=subprocess.STDOUT)
        return shard, p.returncode, p.stdout.decode(errors="replace")[-4000:], time.time() - t0
    except subprocess.TimeoutExpired as e:
        return shard, "watchdog", (e.stdout or b"").decode(errors="replace")[-4000:], time.time() - t0


def check_main(pid, tier, seed, nshards=None, budget_s=None, jobs=None):
    import numpy as np
    t0 = time.time()
    mod = load_prop(pid)
    plan = dict(mod.PLAN[tier])
    nshards = nshards or plan["shards"]
    budget_s = budget_s or plan["budget"]
    jobs = jobs or int(os.environ.get("VERIF_JOBS", "16"))
    timeout = budget_s * 3 + 180
    tmp = tempfile.mkdtemp(prefix="vcheck-%s-" % pid)
    results, hashes, inconclusive = [], [], []
    try:
        with ThreadPoolExecutor(max_workers=jobs) as ex:
            futs = [ex.submit(_spawn, pid, tier, seed, i, nshards, budget_s, os.path.join(tmp, "s%d.json" % i), timeout)
                    for i in range(nshards)]
            for f in futs:
                shard, rc, tail, wall = f.result()
                path = os.path.join(tmp, "s%d.json" % shard)
                if rc != 0 or not os.path.exists(path):
                    inconclusive.append("shard %d %s: %s" % (shard, "killed by the wall-clock watchdog" if rc == "watchdog"
                                                             else "exited %s" % rc, tail[-600:].replace("\n", " | ")))
                    continue
                results.append(json.load(open(path)))
                hashes.append(np.fromfile(path + ".hashes", dtype=np.uint64))
    finally:
        for fn in os.listdir(tmp):
            os.unlink(os.path.join(tmp, fn))
        os.rmdir(tmp)

    agg = dict(evaluations=0, classes=Counter(), monitors=Counter(), obs_max={}, samples={}, violations=[],
               violation_count=0, harness_errors=[], truncated=0, exhausted={}, notes={}, sets={}, shards=len(results),
               shards_planned=nshards, shard_wall_max=0.0)
    for r in results:
        agg["evaluations"] += r["evaluations"]
        agg["classes"].update(r["classes"])
        agg["monitors"].update(r["monitors"])
        for k, v in r["obs_max"].items():
            if k not in agg["obs_max"] or v > agg["obs_max"][k]:
                agg["obs_max"][k] = v
        for k, v in r["samples"].items():
            lst = agg["samples"].setdefault(k, [])
            if len(lst) < 2:
                lst.extend(v[: 2 - len(lst)])
        agg["violations"] += r["violations"]
        agg["violation_count"] += r["violation_count"]
        agg["harness_errors"] += r["harness_errors"]
        agg["truncated"] += 1 if r["truncated"] else 0
        for k, v in r["exhausted"].items():
            agg["exhausted"][k] = agg["exhausted"].get(k, True) and bool(v)
        for k, v in r["notes"].items():
            agg["notes"].setdefault(k, v)
        for k, v in r.get("sets", {}).items():
            agg["sets"].setdefault(k, set()).update(v)
        agg["shard_wall_max"] = max(agg["shard_wall_max"], r["wall_s"])
    distinct = int(len(np.unique(np.concatenate(hashes)))) if hashes and sum(len(h) for h in hashes) else 0
    agg["distinct_nontrivial"] = distinct

    # -- verdict -------------------------------------------------------------------------------------------------
    findings, _fixed = read_known()
    classify = getattr(mod, "classify", lambda v: None)
    known_seen, unknown = {}, []
    for v in agg["violations"]:
        key = classify(v)
        if key is not None and (pid, key) in findings:
            known_seen.setdefault(key, v)
        else:
            unknown.append(v)
    for e in agg["harness_errors"][:3]:
        inconclusive.append("harness error: " + e[-700:].replace("\n", " | "))
    if len(results) == nshards and not agg["harness_errors"]:
        for msg in mod.floors(agg, tier):
            inconclusive.append("floor not reached: " + msg)

    exhaustive = bool(getattr(mod, "EXHAUSTIVE", None)) and agg["truncated"] == 0 and len(results) == nshards \
        and all(agg["exhausted"].get(name, False) for name in mod.EXHAUSTIVE)

    lines = []
    for key, v in sorted(known_seen.items()):
        lines.append("KNOWN-FINDING: property=%s key=%s %s" % (pid, key, findings[(pid, key)]))
    replay_paths = []
    if unknown:
        os.makedirs(os.path.join(VERIF, "replays"), exist_ok=True)
        seen_kinds = set()
        for v in unknown:
            if v["kind"] in seen_kinds and len(replay_paths) >= 1:
                continue
            seen_kinds.add(v["kind"])
            body = dict(property=pid, check=v["check"], case=v["case"], kind=v["kind"], detail=v["detail"], seed=seed,
                        tier=tier)
            name = "%s-%s.json" % (pid, hashlib.sha256(jdump(body).encode()).hexdigest()[:12])
            path = os.path.join(VERIF, "replays", name)
            with open(path, "w") as f:
                f.write(json.dumps(body, indent=1, default=str))
            replay_paths.append((path, v))
            if len(replay_paths) >= 5:
                break

    verdict = "violated" if unknown else ("inconclusive" if inconclusive else "held")
    wall = time.time() - t0
    evidence = dict(
        property_id=pid, tier=tier, seed=int(seed), level=mod.LEVEL, wall_s=round(wall, 2),
        violations=agg["violation_count"] if unknown else 0,
        coverage=dict(
            evaluations=int(agg["evaluations"]), distinct_nontrivial=distinct, rule=mod.RULE,
            samples=[dict(check=k, case=c) for k, lst in sorted(agg["samples"].items()) for c in lst][:10],
            exhaustive=exhaustive,
            exhaustive_spaces={k: bool(v) for k, v in agg["exhausted"].items()},
            classes=dict(sorted(agg["classes"].items())),
            monitor_observations=dict(sorted(agg["monitors"].items())),
            maxima=agg["obs_max"], notes=agg["notes"], distinct_states_observed={k: len(v) for k, v in sorted(agg["sets"].items())},
            shards=agg["shards"], shards_planned=nshards, shards_stopped_by_time_cap=agg["truncated"],
            verdict=verdict, inconclusive_reasons=inconclusive[:10],
            known_findings_observed=sorted(known_seen),
            violation_kinds=sorted({v["kind"] for v in unknown}),
            repo=REPO, python=sys.version.split()[0]),
        assumptions=list(getattr(mod, "ASSUMPTIONS", [])) + [
            "the independent oracles in /verif/vlib (reference coder, walk oracle, fixed-point oracle, VT formula) are "
            "correct", "CPython %s / numpy as installed in /venv" % sys.version.split()[0]])
    # runs against a scratch copy (self-tests with VERIF_REPO set) must not overwrite the evidence of /repo
    evdir = os.path.join(VERIF, "evidence" if REPO == "/repo" else ".scratch-evidence")
    os.makedirs(evdir, exist_ok=True)
    with open(os.path.join(evdir, pid + ".json"), "w") as f:
        json.dump(evidence, f, indent=1, default=str)
        f.write("\n")

    for ln in lines:
        print(ln)
    print("%s tier=%s seed=%s evaluations=%d distinct_nontrivial=%d shards=%d/%d wall=%.1fs verdict=%s" % (
        pid, tier, seed, agg["evaluations"], distinct, agg["shards"], nshards, wall, verdict))
    if unknown:
        for path, v in replay_paths:
            print("  kind=%s detail=%s" % (v["kind"], short(v["detail"], 500)))
            print("VIOLATION property=%s replay=%s" % (pid, path))
        return EXIT_VIOLATION
    if inconclusive:
        for msg in inconclusive[:10]:
            print("INCONCLUSIVE property=%s %s" % (pid, short(msg, 900)))
        return EXIT_INCONCLUSIVE
    return EXIT_HELD


def replay_main(pid, path):
    from .base import import_dsw
    import_dsw()
    mod = load_prop(pid)
    body = json.load(open(path))
    ctx = Ctx(pid, body.get("tier", "quick"), body.get("seed", DEFAULT_SEED), 0, 1, 3600)
    if hasattr(mod, "setup"):
        mod.setup(ctx)
    run_case(mod, ctx, body["check"], body["case"])
    findings, _ = read_known()
    classify = getattr(mod, "classify", lambda v: None)
    if ctx.harness_errors:
        print("INCONCLUSIVE property=%s replay harness error: %s" % (pid, ctx.harness_errors[0][-800:]))
        return EXIT_INCONCLUSIVE
    unknown = [v for v in ctx.violations if not (classify(v) is not None and (pid, classify(v)) in findings)]
    for v in ctx.violations:
        print("  kind=%s detail=%s" % (v["kind"], short(v["detail"], 800)))
    if unknown:
        print("VIOLATION property=%s replay=%s" % (pid, path))
        return EXIT_VIOLATION
    print("REPLAY property=%s: no violation on this tree (%s)" % (pid, REPO))
    return EXIT_HELD
