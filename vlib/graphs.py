"""Independent graph oracles (no code from dsw is used here).

accessor: 4^k x 4 integer array, -1 = no arc, otherwise the shift successor.
arcs-hex: the arc set as a hex string of a 4^(k+1)-bit integer, bit (4*v + j) = arc v --j-->.
"""
import numpy as np

NUC = "ACGT"


def succ(v, j, k):
    return (v * 4 + j) % (4 ** k)


def succs(v, k):
    n = 4 ** k
    return [(v * 4 + j) % n for j in range(4)]


def preds(v, k):
    top = 4 ** (k - 1)
    return [v // 4 + j * top for j in range(4)]


def kmer(v, k):
    out = []
    for _ in range(k):
        out.append(NUC[v % 4])
        v //= 4
    return "".join(reversed(out))


def index_of(s):
    v = 0
    for ch in s:
        v = v * 4 + NUC.index(ch)
    return v


def complete(k):
    n = 4 ** k
    acc = np.empty((n, 4), dtype=int)
    for v in range(n):
        for j in range(4):
            acc[v, j] = (v * 4 + j) % n
    return acc


def _bits_to_hex(flags):
    """Boolean vector -> hex string of the integer whose bit i is flags[i] (linear time)."""
    flags = np.asarray(flags, dtype=bool)
    if not flags.any():
        return "0"
    packed = np.packbits(flags, bitorder="little")
    return "%x" % int.from_bytes(packed.tobytes(), "little")


def _hex_to_bits(hx, n):
    """Inverse of _bits_to_hex: boolean vector of length n (linear time)."""
    value = int(hx, 16)
    raw = value.to_bytes((n + 7) // 8 + 1, "little")
    return np.unpackbits(np.frombuffer(raw, dtype=np.uint8), bitorder="little")[:n].astype(bool)


def acc_to_hex(acc):
    return _bits_to_hex(np.asarray(acc).reshape(-1) >= 0)


def hex_to_acc(k, hx):
    n = 4 ** k
    flags = _hex_to_bits(hx, 4 * n).reshape(n, 4)
    full = (np.arange(n)[:, None] * 4 + np.arange(4)[None, :]) % n
    return np.where(flags, full, -1).astype(int)


def mask_to_hex(mask):
    return _bits_to_hex(np.asarray(mask) != 0)


def hex_to_mask(k, hx, dtype=bool):
    return _hex_to_bits(hx, 4 ** k).astype(dtype)


def out_degrees(acc):
    return (np.asarray(acc) >= 0).sum(axis=1)


def live_vertices(acc):
    return np.nonzero(out_degrees(acc) > 0)[0].tolist()


def induced(k, S):
    """Accessor of the sub-graph of the order-k de Bruijn graph induced by vertex set S."""
    n = 4 ** k
    acc = -np.ones((n, 4), dtype=int)
    for v in S:
        for j in range(4):
            w = (v * 4 + j) % n
            if w in S:
                acc[v, j] = w
    return acc


def closed_subgraph(k, S, t):
    """Greatest fixed point: largest S' of S where every vertex has >= t successors in S' and
    (t == 1) reaches a vertex with >= 2 successors in S'.  The union of closed sets is closed, so it is unique."""
    n = 4 ** k
    S = set(S)
    rounds = 0
    while True:
        deg = {v: sum(1 for j in range(4) if (v * 4 + j) % n in S) for v in S}
        drop = {v for v in S if deg[v] < t}
        if not drop and t == 1:
            reach = {v for v in S if deg[v] >= 2}
            frontier = list(reach)
            while frontier:
                x = frontier.pop()
                for u in preds(x, k):
                    if u in S and u not in reach:
                        reach.add(u)
                        frontier.append(u)
            drop = S - reach
        if not drop:
            return S, rounds
        S -= drop
        rounds += 1


def prune_arcs(acc, k, forbid3=False, rng=None):
    """Largest arc-subset of `acc` that is a well-formed coding graph: every arc ends in a live vertex and every live
    vertex reaches a branching vertex.  With forbid3 one arc of each out-degree-3 vertex is dropped (then re-pruned)."""
    acc = np.array(acc, dtype=int)
    n = 4 ** k
    while True:
        changed = True
        while changed:
            changed = False
            deg = (acc >= 0).sum(axis=1)
            # arcs into dead vertices
            for v in range(n):
                if deg[v]:
                    for j in range(4):
                        if acc[v, j] >= 0 and deg[acc[v, j]] == 0:
                            acc[v, j] = -1
                            changed = True
            if changed:
                continue
            reach = set(np.nonzero(deg >= 2)[0].tolist())
            frontier = list(reach)
            while frontier:
                x = frontier.pop()
                for u in preds(x, k):
                    if u not in reach and acc[u, x % 4] >= 0:
                        reach.add(u)
                        frontier.append(u)
            for v in range(n):
                if deg[v] and v not in reach:
                    acc[v] = -1
                    changed = True
        if not forbid3:
            return acc
        deg = (acc >= 0).sum(axis=1)
        threes = np.nonzero(deg == 3)[0].tolist()
        if not threes:
            return acc
        for v in threes:
            js = [j for j in range(4) if acc[v, j] >= 0]
            acc[v, rng.choice(js)] = -1


def is_well_formed(acc, k, start=None):
    """Every live vertex: arcs end in live vertices and a branching vertex is reachable."""
    deg = (np.asarray(acc) >= 0).sum(axis=1)
    n = 4 ** k
    for v in range(n):
        for j in range(4):
            if acc[v, j] >= 0 and (acc[v, j] != (v * 4 + j) % n or deg[acc[v, j]] == 0):
                return False
    reach = set(np.nonzero(deg >= 2)[0].tolist())
    frontier = list(reach)
    while frontier:
        x = frontier.pop()
        for u in preds(x, k):
            if u not in reach and acc[u, x % 4] >= 0:
                reach.add(u)
                frontier.append(u)
    return all(v in reach for v in range(n) if deg[v])


def walk(acc, start, s):
    """Follow s through acc from start.  Returns dict(ok, pos, reason, vertices, degs).
    reason (when not ok): 'symbol' (not ACGT), 'dead' (vertex without arcs), 'single' (mismatch at out-degree 1),
    'branch' (mismatch at out-degree >= 2).  vertices[i] is the vertex *before* reading s[i]; degs likewise."""
    v = int(start)
    vertices, degs = [], []
    for i, ch in enumerate(s):
        row = acc[v]
        d = int((row >= 0).sum())
        j = NUC.find(ch) if len(ch) == 1 else -1
        if d == 0:
            return dict(ok=False, pos=i, reason="dead", vertices=vertices, degs=degs, end=v)
        if j < 0 or row[j] < 0:
            why = "symbol" if j < 0 else ("single" if d == 1 else "branch")
            return dict(ok=False, pos=i, reason=why, vertices=vertices, degs=degs, end=v, deg=d)
        vertices.append(v)
        degs.append(d)
        v = int(row[j])
    return dict(ok=True, pos=len(s), reason=None, vertices=vertices, degs=degs, end=v)


def random_walk(acc, start, length, rng):
    v = int(start)
    out = []
    for _ in range(length):
        js = [j for j in range(4) if acc[v, j] >= 0]
        if not js:
            break
        j = rng.choice(js)
        out.append(NUC[j])
        v = int(acc[v, j])
    return "".join(out)


def scc_list(acc):
    """Strongly connected components (Tarjan, iterative) of the live part; returns list of lists."""
    n = len(acc)
    index = {}
    low = {}
    on = set()
    stack = []
    comps = []
    counter = [0]
    adj = [[int(w) for w in acc[v] if w >= 0] for v in range(n)]
    for root in range(n):
        if root in index:
            continue
        work = [(root, 0)]
        while work:
            v, i = work.pop()
            if i == 0:
                index[v] = low[v] = counter[0]
                counter[0] += 1
                stack.append(v)
                on.add(v)
            recurse = False
            for idx in range(i, len(adj[v])):
                w = adj[v][idx]
                if w not in index:
                    work.append((v, idx + 1))
                    work.append((w, 0))
                    recurse = True
                    break
                elif w in on:
                    low[v] = min(low[v], index[w])
            if recurse:
                continue
            if low[v] == index[v]:
                comp = []
                while True:
                    w = stack.pop()
                    on.discard(w)
                    comp.append(w)
                    if w == v:
                        break
                comps.append(comp)
            if work:
                u = work[-1][0]
                low[u] = min(low[u], low[v])
    return comps
