"""Independent reference models on Python integers (no code from dsw is used here)."""
NUC = "ACGT"


class RefUndefined(Exception):
    """The reference model does not define a result for this input (outside the property's domain)."""


def bits_value(bits):
    v = 0
    for b in bits:
        v = v * 2 + int(b)
    return v


def value_bits(value, width):
    return [(value >> (width - 1 - i)) & 1 for i in range(width)]


def _live(acc, v):
    row = acc[v]
    return [j for j in range(4) if row[j] >= 0]


def _order(live, v, shuffles):
    """live arcs ordered by digit: digit d -> d-th live arc in ACGT order, or (table) live arc with d-th smallest entry."""
    if shuffles is None:
        return live
    row = shuffles[v]
    return sorted(live, key=lambda j: int(row[j]))


def ref_encode(bits, acc, start, fast=False, shuffles=None, step_limit=None):
    """The published scheme.  Returns (strand, digits) where digits = [(radix, digit)] per step (radix 1: digit None)."""
    bits = [int(b) for b in bits]
    v = int(start)
    out, digits = [], []
    if step_limit is None:
        step_limit = (len(bits) + 2) * (len(acc) + 1) + 8
    if not fast:
        q = bits_value(bits)
        while q != 0:
            live = _live(acc, v)
            d = len(live)
            if d == 0:
                raise RefUndefined("dead vertex %d" % v)
            if d > 1:
                q, r = divmod(q, d)
                j = _order(live, v, shuffles)[r]
                digits.append((d, r))
            else:
                j = live[0]
                digits.append((1, None))
            out.append(NUC[j])
            v = int(acc[v][j])
            if len(out) > step_limit:
                raise RefUndefined("no progress (information-free cycle)")
    else:
        loc, n = 0, len(bits)
        while loc < n:
            live = _live(acc, v)
            d = len(live)
            if d == 4:
                r = bits[loc] * 2 + (bits[loc + 1] if loc + 1 < n else 0)
                loc += 2
            elif d == 2:
                r = bits[loc]
                loc += 1
            elif d == 1:
                r = None
            else:
                raise RefUndefined("out-degree %d in fast mode at vertex %d" % (d, v))
            j = live[0] if r is None else _order(live, v, shuffles)[r]
            digits.append((d, r))
            out.append(NUC[j])
            v = int(acc[v][j])
            if len(out) > step_limit:
                raise RefUndefined("no progress (information-free cycle)")
    return "".join(out), digits


def walk_digits(s, acc, start, shuffles=None):
    """Digits carried by walk s: [(radix, digit)] (radix 1 -> None).  Raises RefUndefined if s is not a walk."""
    v = int(start)
    digits = []
    for ch in s:
        j = NUC.find(ch)
        live = _live(acc, v)
        if j < 0 or j not in live:
            raise RefUndefined("not a walk")
        d = len(live)
        if d > 1:
            digits.append((d, _order(live, v, shuffles).index(j)))
        else:
            digits.append((1, None))
        v = int(acc[v][j])
    return digits


def digits_value(digits):
    """Little-endian mixed radix: value = d0 + r0*(d1 + r1*(...))."""
    q = 0
    for radix, digit in reversed(digits):
        if radix > 1:
            q = q * radix + digit
    return q


def fast_bits(digits):
    out = []
    for radix, digit in digits:
        if radix == 4:
            out += [digit // 2, digit % 2]
        elif radix == 2:
            out.append(digit)
        elif radix == 1:
            pass
        else:
            raise RefUndefined("radix 3 in fast mode")
    return out


def vt(s, n):
    """The documented Varshamov-Tenengolts path check of length n >= 1."""
    vals = [NUC.index(c) for c in s]
    flag = sum(vals) % 4
    asc = sum(i for i in range(len(vals) - 1) if vals[i + 1] > vals[i]) % (4 ** (n - 1))
    tail = []
    for _ in range(n - 1):
        tail.append(NUC[asc % 4])
        asc //= 4
    return NUC[flag] + "".join(reversed(tail))


def revcomp(s):
    return "".join({"A": "T", "C": "G", "G": "C", "T": "A"}[c] for c in reversed(s))
