"""Runtime-monitoring machinery for DNASpiderWeb (see /verif/DESIGN.md section 2)."""
