"""M4: argument snapshots, module-global digest, RNG-state digest, audit-hook recorder."""
import hashlib
import sys
import types

import numpy as np

from .base import dsw_modules


def digest(obj):
    h = hashlib.sha256()
    _feed(h, obj, 0)
    return h.hexdigest()[:24]


def _feed(h, o, depth):
    if depth > 8:
        h.update(b"<deep>")
        return
    if isinstance(o, np.ndarray):
        h.update(b"nd" + str(o.dtype).encode() + str(o.shape).encode())
        h.update(np.ascontiguousarray(o.view(np.ndarray)).tobytes())
    elif isinstance(o, (str, bytes, int, float, bool, type(None), complex, np.generic)):
        h.update((type(o).__name__ + ":" + repr(o)).encode())
    elif isinstance(o, (list, tuple)):
        h.update(type(o).__name__.encode() + b"[")
        for x in o:
            _feed(h, x, depth + 1)
            h.update(b",")
        h.update(b"]")
    elif isinstance(o, dict):
        h.update(b"{")
        for k in o:  # insertion order is part of the observable state of a dict
            _feed(h, k, depth + 1)
            h.update(b":")
            _feed(h, o[k], depth + 1)
            h.update(b",")
        h.update(b"}")
    elif isinstance(o, (set, frozenset)):
        h.update(b"set" + repr(sorted(map(repr, o))).encode())
    elif isinstance(o, (types.FunctionType, types.BuiltinFunctionType, type, types.ModuleType, types.MethodType)):
        h.update(("callable:" + getattr(o, "__qualname__", getattr(o, "__name__", "?"))).encode())
    elif hasattr(o, "__dict__"):
        h.update(("obj:" + type(o).__name__).encode())
        _feed(h, vars(o), depth + 1)
    else:
        h.update(("other:" + type(o).__name__ + repr(o)).encode())


def globals_digest():
    """Digest of everything mutable that lives in the dsw modules: module globals (names and values), defaults /
    attributes / closures of the dsw functions, class attributes.  A cache, a counter or a memo table anywhere in there
    changes it.  Objects imported from other packages (numpy, networkx functions) are identified by name only."""
    h = hashlib.sha256()
    for m in dsw_modules():
        d = vars(m)
        for name in sorted(d):
            if name.startswith("__") and name.endswith("__"):
                continue
            v = d[name]
            h.update(name.encode())
            if isinstance(v, types.FunctionType):
                if not (v.__module__ or "").startswith("dsw"):
                    h.update(b"ext-fn")
                    continue
                _feed(h, v.__defaults__, 0)
                _feed(h, v.__kwdefaults__, 0)
                if v.__dict__:
                    _feed(h, {k: x for k, x in v.__dict__.items() if k != "__wrapped__"}, 0)
                if v.__closure__ and not hasattr(v, "__wrapped__"):
                    for cell in v.__closure__:
                        try:
                            _feed(h, cell.cell_contents, 0)
                        except ValueError:
                            pass
            elif isinstance(v, type):
                if not (v.__module__ or "").startswith("dsw"):
                    h.update(b"ext-type")
                    continue
                for an in sorted(vars(v)):
                    av = vars(v)[an]
                    if an.startswith("__") and an.endswith("__"):
                        continue
                    h.update(an.encode())
                    if isinstance(av, types.FunctionType):
                        _feed(h, av.__defaults__, 0)
                        if av.__dict__:
                            _feed(h, dict(av.__dict__), 0)
                    else:
                        _feed(h, av, 0)
            elif isinstance(v, (types.ModuleType, types.BuiltinFunctionType)) or callable(v):
                h.update(b"ext")
            else:
                _feed(h, v, 0)
    return h.hexdigest()[:24]


def rng_digest():
    st = np.random.get_state()
    return digest([st[0], st[1], st[2], st[3], st[4]])


def ambient_digest():
    """Interpreter-wide state a library call has no business touching: the stdlib `random` generator, the working
    directory, the environment, sys.path, recursion / int-str limits, the warning filters, numpy's error and print
    settings, the decimal context, sys.stdout / stderr.  (numpy's global RNG has its own digest: two calls may use it.)"""
    import decimal
    import os
    import random as _random
    import sys
    import warnings
    st = _random.getstate()
    parts = [st[0], hashlib.blake2b(repr(st[1]).encode(), digest_size=8).hexdigest(), st[2],
             os.getcwd(), sorted(os.environ.items()), list(sys.path), sys.getrecursionlimit(),
             len(warnings.filters), repr(warnings.filters[:3]), sorted(np.geterr().items()),
             sorted((k, repr(v)) for k, v in np.get_printoptions().items()), repr(decimal.getcontext()),
             id(sys.stdout), id(sys.stderr), sys.getswitchinterval()]
    return hashlib.blake2b(repr(parts).encode(), digest_size=12).hexdigest()


# ---------------------------------------------------------------------------------------------------------------------
# audit hook: side effects raised while a guarded call is on the stack

_WATCH_PREFIX = ("os.", "shutil.", "socket.", "subprocess.", "tempfile.", "ctypes.", "urllib.", "http.", "ftplib.",
                 "smtplib.", "sqlite3.", "webbrowser.", "winreg.", "msvcrt.", "fcntl.", "pty.", "signal.", "glob.",
                 "pathlib.", "mmap.", "marshal.", "pickle.", "syslog.", "resource.", "array.", "exec", "compile",
                 "import")
_IGNORE = {"os.putenv", "os.unsetenv"}


class _Audit:
    installed = False
    active = 0
    events = []


def _in_import():
    """True when the event is raised underneath the import machinery (numpy imports sub-packages lazily on first use)."""
    f = sys._getframe(2)
    depth = 0
    while f is not None and depth < 60:
        if f.f_code.co_filename.startswith("<frozen importlib"):
            return True
        f = f.f_back
        depth += 1
    return False


def _hook(event, args):
    if not _Audit.active:
        return
    if event == "open":
        path, mode = (list(args) + [None, None])[:2]
        m = str(mode or "r")
        if any(c in m for c in "wax+"):
            if not _in_import():
                _Audit.events.append(("open-for-write", str(path), m))
        else:
            _Audit.events.append(("open", str(path), m))
        return
    if event in ("import", "compile", "exec"):
        # lazy imports inside numpy are legitimate; record only for information
        return
    if event.startswith(_WATCH_PREFIX) and event not in _IGNORE:
        if _in_import():
            return
        _Audit.events.append((event, repr(args)[:120]))


def audit_install():
    if not _Audit.installed:
        sys.addaudithook(_hook)
        _Audit.installed = True


class audited:
    """with audited() as ev: call()  ->  ev.events = side-effect audit events raised during the call."""

    def __enter__(self):
        audit_install()
        self._start = len(_Audit.events)
        _Audit.active += 1
        self.events = []
        return self

    def __exit__(self, *a):
        _Audit.active -= 1
        self.events = _Audit.events[self._start:]
        del _Audit.events[self._start:]
        return False
