"""State / aliasing monitors shared by several checks.

G1  return-aliasing: after a call has returned a mutable object, that object is scrambled in place and the same call is
    repeated; the second answer must equal the first one (as it was before scrambling).  A memoised or pooled return
    value (lru_cache, module-level buffer, list handed out twice) fails this.
G2  argument staleness: f(x) -> x is edited in place -> f(x) again; the second answer must be the answer for the edited
    x (judged by the check's own oracle).  A cache keyed by the identity of x fails this.
G3  noise: unrelated library calls with other arguments between two checked calls (state that leaks across calls).
"""
import contextlib
import io

import numpy as np


def snapshot(x):
    """Canonical, hashable-ish deep snapshot of a result (for equality after the original has been scrambled)."""
    if isinstance(x, np.ndarray):
        return ("nd", x.shape, str(x.dtype), x.tobytes())
    if isinstance(x, (np.bool_, bool)):
        return bool(x)
    if isinstance(x, np.integer):
        return int(x)
    if isinstance(x, (np.floating, float)):
        return ("f", repr(float(x)))
    if isinstance(x, (list, tuple)):
        return (type(x).__name__,) + tuple(snapshot(y) for y in x)
    if isinstance(x, dict):
        return ("d",) + tuple((snapshot(a), snapshot(b)) for a, b in x.items())
    if isinstance(x, (str, int, type(None))):
        return x
    return ("obj", type(x).__name__)


def scramble(x, depth=0):
    """Destroy the content of every mutable container reachable from x, in place.  Returns how many were scrambled."""
    n = 0
    if depth > 4:
        return 0
    if isinstance(x, np.ndarray):
        if x.flags.writeable and x.size:
            try:
                x[...] = -7 if x.dtype.kind in "iuf" else (not x.flat[0] if x.dtype.kind == "b" else x.flat[0])
                n += 1
            except (ValueError, TypeError):
                pass
    elif isinstance(x, list):
        for y in x:
            n += scramble(y, depth + 1)
        x.reverse()
        x.append("scrambled-by-the-harness")
        n += 1
    elif isinstance(x, dict):
        for y in list(x.values()):
            n += scramble(y, depth + 1)
        x.clear()
        x["scrambled-by-the-harness"] = True
        n += 1
    elif isinstance(x, tuple):
        for y in x:
            n += scramble(y, depth + 1)
    return n


def has_mutable(x, depth=0):
    if depth > 4:
        return False
    if isinstance(x, (np.ndarray, list, dict)):
        return True
    if isinstance(x, tuple):
        return any(has_mutable(y, depth + 1) for y in x)
    return False


def call_quiet(fn, *a, **k):
    with contextlib.redirect_stdout(io.StringIO()):
        return fn(*a, **k)


def _parts(x, depth=0, out=None):
    out = [] if out is None else out
    if depth > 4:
        return out
    if isinstance(x, (np.ndarray, list, dict)):
        out.append(x)
    if isinstance(x, (list, tuple)):
        for y in x:
            _parts(y, depth + 1, out)
    elif isinstance(x, dict):
        for y in x.values():
            _parts(y, depth + 1, out)
    return out


def aliases_arguments(result, args, kwargs):
    """True when a mutable part of the result is (or shares memory with) a mutable part of the arguments - e.g. a
    function that hands its own argument back.  Scrambling such a result would destroy the arguments of the repeat."""
    ins = _parts(tuple(args)) + _parts(tuple(kwargs.values()))
    for r in _parts(result):
        for a in ins:
            if r is a:
                return True
            if isinstance(r, np.ndarray) and isinstance(a, np.ndarray) and np.shares_memory(r, a):
                return True
    return False


def repeat_after_scramble(fn, args, kwargs, first):
    """G1.  `first` is the object returned by fn(*args, **kwargs) a moment ago.  Scrambles it, calls again.
    Returns (checked, same, second_or_exception): checked False when there was nothing mutable to scramble."""
    if not has_mutable(first) or aliases_arguments(first, args, kwargs):
        return False, True, None
    want = snapshot(first)
    scramble(first)
    try:
        second = call_quiet(fn, *args, **kwargs)
    except Exception as e:  # noqa
        return True, False, e
    return True, snapshot(second) == want, second


def caller_edit(lst, rng):
    """What a caller might do to a list it was handed: pop an element, empty it, reverse it, or append to it."""
    style = rng.choice(["pop", "pop", "clear", "reverse", "append"])
    if style == "pop" and lst:
        lst.pop()
    elif style == "clear":
        del lst[:]
    elif style == "reverse":
        lst.reverse()
    else:
        lst.append(lst[0] if lst else 0)
