"""Seeded generators of graphs, messages, tables and edits.  Everything returned is JSON-able (graphs as k + arcs-hex)."""
import numpy as np

from . import graphs as G

NUC = "ACGT"
_cache = {}


def acc_of(case):
    """Accessor (fresh copy) for a case fragment {'k':..,'arcs':hex}."""
    key = (case["k"], case["arcs"])
    a = _cache.get(key)
    if a is None:
        if len(_cache) > 64:
            _cache.clear()
        a = G.hex_to_acc(case["k"], case["arcs"])
        _cache[key] = a
    return a.copy()


def graph_case(acc, k):
    return {"k": k, "arcs": G.acc_to_hex(acc)}


def rand_mask(rng, k, density):
    return [1 if rng.random() < density else 0 for _ in range(4 ** k)]


def arc_graph(rng, k, density=None, forbid3=False):
    """Random arc subset of the order-k de Bruijn graph, pruned to a well-formed coding graph (mixed out-degrees 1-4).
    Returns accessor or None when nothing is left."""
    n = 4 ** k
    if density is None:
        density = rng.choice([0.27, 0.35, 0.5, 0.65, 0.8, 0.95])   # 0.27: thin graphs, long chains of out-degree-1 vertices
    acc = -np.ones((n, 4), dtype=int)
    for v in range(n):
        for j in range(4):
            if rng.random() < density:
                acc[v, j] = (v * 4 + j) % n
    acc = G.prune_arcs(acc, k, forbid3=forbid3, rng=rng)
    if not (acc >= 0).any():
        return None
    return acc


def closed_graph(rng, k, t, density=None):
    """Oracle-built generated graph: largest closed sub-graph of a random mask.  Returns (acc, S) or (None, set())."""
    if density is None:
        density = rng.choice([0.5, 0.65, 0.8, 0.9, 0.97])
    mask = rand_mask(rng, k, density)
    S, _ = G.closed_subgraph(k, {i for i, m in enumerate(mask) if m}, t)
    if not S:
        return None, set()
    return G.induced(k, S), S


def table(rng, k, kind=None):
    """Shuffle table (4^k x 4, rows permutations) as nested lists; kind None picks one."""
    n = 4 ** k
    kind = kind or rng.choice(["random", "random", "reverse", "const"])
    if kind == "random":
        rows = []
        for _ in range(n):
            r = [0, 1, 2, 3]
            rng.shuffle(r)
            rows.append(r)
        return rows
    if kind == "reverse":
        return [[3, 2, 1, 0] for _ in range(n)]
    r = [0, 1, 2, 3]
    rng.shuffle(r)
    return [list(r) for _ in range(n)]


def message(rng, max_len, kind=None):
    """(bits list, class tag)."""
    kind = kind or rng.choice(["empty", "zeros", "ones", "leadzero", "trail1", "lead1", "random", "random", "random",
                               "pow2m1", "pow2p1", "len1", "odd", "len2", "len3", "dec-round", "pow10-sum", "limbs"])
    L = rng.randint(1, max_len)
    if kind == "empty":
        return [], kind
    if kind == "dec-round":
        # values d * 10^e (+ small): the decimal-string arithmetic sees long runs of 0 / 9 and exact limb boundaries
        v = rng.choice([1, 2, 5, 8, 9]) * 10 ** rng.randint(15, 45) + rng.choice([0, 0, 1, -1, 2])
        bits = [int(c) for c in bin(v)[2:]]
        return [0] * rng.choice([0, 0, 1, 5]) + bits, kind
    if kind == "limbs":
        # value = q * r + d with q a limb number: the quotient the coder meets one step later is exactly q
        q = int(limb_number(rng, 4))
        r = rng.choice([2, 3, 3, 4])
        v = q * r + rng.randrange(r)
        return [int(c) for c in bin(v)[2:]], kind
    if kind == "pow10-sum":
        # a few decimal digits scattered over 10..45 places: nine-digit groups such as 000001000 / 001000000
        v = sum(rng.choice([1, 1, 1, 2, 7]) * 10 ** e for e in rng.sample(range(0, 46), rng.randint(2, 4)))
        return [int(c) for c in bin(v)[2:]], kind
    if kind == "long":
        n = rng.randint(2150, 2500)
        return [rng.randint(0, 1) for _ in range(n)], kind
    if kind == "len1":
        return [rng.randint(0, 1)], kind
    if kind == "len2":
        return [rng.randint(0, 1), rng.randint(0, 1)], kind
    if kind == "len3":
        return [rng.randint(0, 1) for _ in range(3)], kind
    if kind == "zeros":
        return [0] * L, kind
    if kind == "ones":
        return [1] * L, kind
    if kind == "leadzero":
        z = rng.randint(1, L)
        return [0] * z + [rng.randint(0, 1) for _ in range(L - z)], kind
    if kind == "trail1":
        return [0] * (L - 1) + [1], kind
    if kind == "lead1":
        return [1] + [0] * (L - 1), kind
    if kind == "pow2m1":
        z = rng.randint(0, L - 1)
        return [0] * z + [1] * (L - z), kind
    if kind == "pow2p1":
        if L < 2:
            return [1], kind
        z = rng.randint(0, L - 2)
        return [0] * z + [1] + [0] * (L - z - 2) + [1], kind
    if kind == "odd":
        L = L | 1
        return [rng.randint(0, 1) for _ in range(L)], kind
    return [rng.randint(0, 1) for _ in range(L)], "random"


def as_message(bits, dtype_name):
    """Materialise a bit list as one of the element types the library documents / the suite uses."""
    if dtype_name == "list":
        return list(bits)
    return np.array(bits, dtype=dtype_name)


def edit(s, kind, pos, ch=None):
    """Apply one edit: ('S', pos, ch) substitution, ('I', pos, ch) insertion before pos, ('D', pos) deletion."""
    if kind == "S":
        return s[:pos] + ch + s[pos + 1:]
    if kind == "I":
        return s[:pos] + ch + s[pos:]
    if kind == "D":
        return s[:pos] + s[pos + 1:]
    raise ValueError(kind)


def apply_edits(s, edits):
    """Edits given with positions in the *original* coordinates; applied from right to left."""
    for e in sorted(edits, key=lambda e: -e[1]):
        s = edit(s, e[0], e[1], e[2] if len(e) > 2 else None)
    return s


def random_dna(rng, n):
    return "".join(rng.choice(NUC) for _ in range(n))


def limb_number(rng, max_limbs=8):
    """A decimal string built from aligned blocks ('limbs') of width b = 1..20 whose products with a digit m land exactly
    on, just below or just above 10^b: the inputs on which block-wise (machine-word) decimal arithmetic gets a carry
    wrong, whatever limb width it uses.  Returns the string (canonical, no leading zeros)."""
    b = rng.choice([1, 2, 3, 4, 8, 9, 9, 9, 10, 15, 16, 17, 18, 18, 19, 20])
    top = 10 ** b
    m = rng.randint(2, 9)
    pool = [0, 0, top - 1, top - 1, top // m, top // m + 1, (top - 1) // m, -(-top // m), top // 2, top // 4, top // 5, top // 8,
            top - m, 1, rng.randrange(top), rng.randrange(top)]
    limbs = [rng.choice(pool) % top for _ in range(rng.randint(2, max_limbs))]
    s = "".join(str(x).zfill(b) for x in limbs).lstrip("0")
    lead = rng.choice(["", "", str(rng.randint(1, 9)), str(rng.randrange(1, top))])
    return (lead + s) if (lead + s) else "0"


def as_layout(acc, layout):
    """The same graph in another array representation (values unchanged)."""
    if layout == "F":
        return np.asfortranarray(acc)                 # column-major memory
    if layout == "strided":
        wide = np.full((acc.shape[0], 8), -1, dtype=acc.dtype)
        wide[:, ::2] = acc
        return wide[:, ::2]                           # a non-contiguous view of a wider table
    if layout == "i32" or (layout == "i16" and acc.max() >= 2 ** 15):
        return acc.astype(np.int32)
    if layout == "i16":
        return acc.astype(np.int16)
    return acc
