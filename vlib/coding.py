"""Shared client-side wrappers around encode / decode / repair_dna with the monitors attached."""
import random

import numpy as np

from . import clock, guards
from .base import import_dsw, short
from .proxies import frozen

NUC = "ACGT"


def table_of(spec, k):
    """Shuffle table from its compact JSON form: None | ['random', seed] | ['const', perm] | ['rows', rows]."""
    if spec is None:
        return None
    kind = spec[0]
    n = 4 ** k
    if kind == "random":
        r = random.Random(spec[1])
        rows = []
        for _ in range(n):
            p = [0, 1, 2, 3]
            r.shuffle(p)
            rows.append(p)
        return np.array(rows, dtype=int)
    if kind == "const":
        return np.array([list(spec[1])] * n, dtype=int)
    if kind == "rows":
        return np.array(spec[1], dtype=int)
    raise ValueError(spec)


def rand_table_spec(rng, p_none=0.4):
    x = rng.random()
    if x < p_none:
        return None
    if x < p_none + (1 - p_none) * 0.7:
        return ["random", rng.getrandbits(32)]
    p = [0, 1, 2, 3]
    rng.shuffle(p)
    return ["const", p]


def encode_budget(L, live):
    digits = L // 3 + 8
    return 16 * ((L + 1) * max(live, 1) * digits + 2 * (L + 1) * digits + 500)


def decode_budget(n, L):
    digits = max(n * 2, L) // 3 + 8
    return 16 * (3 * (n + 1) * digits + (L + 2) * digits + 500)


class Outcome:
    """Result of one monitored call: kind in {'ok','raised','budget'}."""
    __slots__ = ("kind", "value", "exc", "steps")

    def __init__(self, kind, value=None, exc=None, steps=0):
        self.kind, self.value, self.exc, self.steps = kind, value, exc, steps

    def describe(self):
        if self.kind == "ok":
            return "returned " + short(repr(self.value), 160)
        if self.kind == "raised":
            return "raised %s: %s" % (type(self.exc).__name__, short(str(self.exc), 160))
        return "did not return within the loop-iteration budget (%d iterations)" % self.steps


INT_STR_TRAP = 640   # digits; CPython's own limit is 4300 (PEP/CVE-2020-10735), 640 is the lowest it accepts


class int_str_trap:
    """While a library call runs, CPython's int<->str conversion limit is lowered from 4300 to 640 digits.  The library
    works on decimal *strings* precisely to have no such limit; an implementation that silently goes through int() /
    str() still works in ordinary tests and breaks for messages beyond ~14 000 bits.  With the lowered limit the same
    ValueError appears beyond ~2 100 bits, which a workload can afford.  The harness's own oracles lift the limit
    (see contracts._counting)."""

    def __enter__(self):
        import sys
        self._old = sys.get_int_max_str_digits()
        sys.set_int_max_str_digits(INT_STR_TRAP)

    def __exit__(self, *a):
        import sys
        sys.set_int_max_str_digits(self._old)
        return False


def monitored(fn, budget, *a, **k):
    """Call fn under the JUMP clock and the int<->str trap.  Library exceptions are returned, not raised."""
    with clock.budget(budget) as b, int_str_trap():
        try:
            v = fn(*a, **k)
            out = Outcome("ok", v)
        except clock.BudgetExceeded:
            out = Outcome("budget")
        except Exception as e:  # noqa - the exception *is* the observation
            out = Outcome("raised", exc=e)
    out.steps = b.count
    return out


class ArgGuard:
    """M4: digests of the arguments before / after; ndarray arguments are handed over read-only.  The (more expensive)
    digest of the dsw module globals is taken on every GLOBALS_EVERY-th guard (every guard in C20)."""
    GLOBALS_EVERY = 25
    _n = 0
    globals_checked = 0

    def __init__(self, **named):
        self.named = named
        self.before = {k: guards.digest(v) for k, v in named.items()}
        ArgGuard._n += 1
        self.g0 = guards.globals_digest() if ArgGuard._n % ArgGuard.GLOBALS_EVERY == 0 else None
        self.a0 = guards.ambient_digest() if ArgGuard._n % 5 == 0 else None

    def changed(self):
        out = [k for k, v in self.named.items() if guards.digest(v) != self.before[k]]
        if self.g0 is not None:
            ArgGuard.globals_checked += 1
            if guards.globals_digest() != self.g0:
                out.append("<module globals of dsw>")
        if self.a0 is not None and guards.ambient_digest() != self.a0:
            out.append("<interpreter-wide state: stdlib random / cwd / environment / sys.path / limits / numpy settings>")
        return out


def freeze_args(*arrays):
    return [None if a is None else (frozen(a) if isinstance(a, np.ndarray) else a) for a in arrays]


def is_strand(x):
    return isinstance(x, str) and all(c in NUC for c in x)


def bits_equal(result, bits):
    """decode's result equals the original bits: an integer array/sequence of exactly len(bits) values."""
    try:
        r = np.asarray(result)
    except Exception:
        return False
    if r.ndim != 1 or len(r) != len(bits):
        return False
    if len(bits) == 0:
        return True
    if r.dtype.kind not in "iub":
        return False
    return r.astype(int).tolist() == [int(b) for b in bits]


def run_repo_tests(ctx, files):
    """Run files of the repository's own test suite in-process (they import the already contracted functions).
    Returns (pytest exit code, number of contract evaluations that happened inside)."""
    import os
    import pytest
    from . import contracts
    from .base import REPO
    paths = [os.path.join(REPO, f) for f in files if os.path.exists(os.path.join(REPO, f))]
    if not paths:
        return None, 0
    before = sum(contracts.EVALS.values())
    rc = pytest.main(["-q", "-x", "-p", "no:cacheprovider", "--no-header", "-W", "ignore"] + paths)
    return int(rc), sum(contracts.EVALS.values()) - before
