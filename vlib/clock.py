"""M2 / M5: sys.monitoring based logical clock (loop back-edges), line coverage and source-free state probes.

Only code objects defined in the dsw modules are instrumented (set_local_events), so the harness itself is not slowed.
A budget overrun raises BudgetExceeded *inside* the monitored frame, which unwinds the call under test.
"""
import ast
import inspect
import sys
import types
from collections import Counter

from .base import dsw_modules

mon = sys.monitoring
TOOL = 3


class BudgetExceeded(BaseException):
    """Raised inside a dsw frame when the loop-iteration budget is exhausted (BaseException: nothing in dsw may
    swallow it by accident with `except Exception`)."""


class _State:
    installed = False
    count = 0
    budget = None
    codes = []
    lines_seen = {}      # code -> set(lineno)  (first-hit coverage)
    probes = {}          # (code, lineno) -> (name, fn or None)
    probe_hits = Counter()
    line_events_on = False


S = _State()


def _all_codes():
    out = []
    seen = set()

    def add_code(code):
        if id(code) in seen:
            return
        seen.add(id(code))
        out.append(code)
        for c in code.co_consts:
            if isinstance(c, types.CodeType):
                add_code(c)

    for m in dsw_modules():
        for name, obj in vars(m).items():
            if isinstance(obj, types.FunctionType) and obj.__module__ == m.__name__:
                add_code(obj.__code__)
            elif isinstance(obj, type) and obj.__module__ == m.__name__:
                for a in vars(obj).values():
                    if isinstance(a, types.FunctionType):
                        add_code(a.__code__)
    return out


def _jump_cb(code, src, dst):
    if dst <= src:
        S.count += 1
        if S.budget is not None and S.count > S.budget:
            S.budget = None  # fire once
            raise BudgetExceeded("loop-iteration budget exhausted in %s" % code.co_name)


def _line_cb(code, lineno):
    key = (code, lineno)
    p = S.probes.get(key)
    if p is None:
        S.lines_seen.setdefault(code, set()).add(lineno)
        return mon.DISABLE
    name, fn = p
    S.probe_hits[name] += 1
    if fn is not None:
        fn(sys._getframe(1))
    return None


def install(lines=False):
    """Enable the JUMP clock (and optionally LINE events) on every dsw code object.  Idempotent."""
    if not S.installed:
        if mon.get_tool(TOOL) is None:
            mon.use_tool_id(TOOL, "verif-clock")
        mon.register_callback(TOOL, mon.events.JUMP, _jump_cb)
        mon.register_callback(TOOL, mon.events.LINE, _line_cb)
        S.codes = _all_codes()
        S.installed = True
    ev = mon.events.JUMP | (mon.events.LINE if lines else 0)
    for c in S.codes:
        mon.set_local_events(TOOL, c, ev)
    S.line_events_on = lines
    if lines:
        mon.restart_events()


def uninstall():
    if S.installed:
        for c in S.codes:
            mon.set_local_events(TOOL, c, 0)


class budget:
    """with budget(n) as b: call()  ->  b.count loop iterations were executed in dsw code; BudgetExceeded if > n."""

    def __init__(self, n):
        self.n = n
        self.count = 0

    def __enter__(self):
        if not S.installed:
            install(S.line_events_on)
        self._saved = (S.count, S.budget)
        S.count = 0
        S.budget = self.n
        return self

    def __exit__(self, et, ev, tb):
        self.count = S.count
        S.count, S.budget = self._saved[0] + S.count, self._saved[1]
        return False


# ---------------------------------------------------------------------------------------------------------------------
# AST-located probe lines (never line numbers from the property anchors)

def func_ast(func):
    src = inspect.getsource(func)
    tree = ast.parse(src)
    node = tree.body[0]
    offset = func.__code__.co_firstlineno - node.lineno
    # decorators shift co_firstlineno; for plain functions node.lineno == 1
    return node, offset


def find_lines(func, predicate):
    """Line numbers (absolute, in the source file) of the statements inside func for which predicate(node) holds."""
    node, offset = func_ast(func)
    out = []
    for n in ast.walk(node):
        if isinstance(n, ast.stmt) and predicate(n):
            out.append(n.lineno + offset)
    return sorted(out)


def add_probe(func, lineno, name, fn=None):
    """Count executions of `lineno` of func (and call fn(frame) there).  Requires install(lines=True)."""
    S.probes[(func.__code__, lineno)] = (name, fn)


def probe_raises(func, prefix):
    """One probe per `raise` statement of func; names prefix:raise@<rank>."""
    lines = find_lines(func, lambda n: isinstance(n, ast.Raise))
    for rank, ln in enumerate(lines):
        add_probe(func, ln, "%s:raise#%d" % (prefix, rank))
    return lines


def probe_returns(func, prefix):
    lines = find_lines(func, lambda n: isinstance(n, ast.Return))
    for rank, ln in enumerate(lines):
        add_probe(func, ln, "%s:return#%d" % (prefix, rank))
    return lines


def coverage_of(func):
    """(executed statement lines, all statement lines) of func, from first-hit LINE events."""
    node, offset = func_ast(func)
    doc = ast.get_docstring(node, clean=False)
    all_lines = set()
    for n in ast.walk(node):
        if isinstance(n, ast.stmt) and n is not node:
            if isinstance(n, ast.Expr) and isinstance(getattr(n, "value", None), ast.Constant) \
                    and isinstance(n.value.value, str):
                continue
            all_lines.add(n.lineno + offset)
    seen = set(S.lines_seen.get(func.__code__, set()))
    seen |= {ln for (c, ln) in S.probes if c is func.__code__ and S.probe_hits.get(S.probes[(c, ln)][0], 0) > 0}
    return sorted(seen & all_lines), sorted(all_lines)
