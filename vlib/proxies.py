"""M3: access-counting ndarray proxy, and read-only traps."""
import numpy as np


class AccessBudgetExceeded(BaseException):
    pass


class CountingAccessor(np.ndarray):
    """Counts __getitem__/__setitem__ on the *root* object only: every view or derived array is handed out as a plain
    ndarray, so accessor[v][j] counts one read, not two."""

    def __new__(cls, arr, read_budget=None):
        obj = np.array(arr).view(cls)
        obj.reads = 0
        obj.writes = 0
        obj.write_log = []
        obj.read_budget = read_budget
        obj._root = True
        return obj

    def __array_finalize__(self, obj):
        self._root = False
        self.reads = 0
        self.writes = 0
        self.write_log = []
        self.read_budget = None

    def __getitem__(self, key):
        if self._root:
            self.reads += 1
            if self.read_budget is not None and self.reads > self.read_budget:
                self.read_budget = None
                raise AccessBudgetExceeded("graph look-up budget exhausted")
        out = np.ndarray.__getitem__(self, key)
        if isinstance(out, np.ndarray):
            return out.view(np.ndarray)
        return out

    def __setitem__(self, key, value):
        if self._root:
            self.writes += 1
            self.write_log.append((repr(key), repr(value)))
        np.ndarray.__setitem__(self, key, value)

    def __array_wrap__(self, out_arr, context=None, return_scalar=False):
        if return_scalar:
            return out_arr[()]
        return np.asarray(out_arr).view(np.ndarray)

    def plain(self):
        return np.array(self.view(np.ndarray))


def frozen(arr):
    """A read-only copy: any in-place write inside the library raises ValueError('assignment destination is
    read-only') at the faulting statement."""
    a = np.array(arr)
    a.flags.writeable = False
    return a
