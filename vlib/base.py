"""Bootstrap: locate the repository under test, import it from the working tree, small helpers."""
import hashlib
import json
import os
import sys

VERIF = os.path.dirname(os.path.dirname(os.path.abspath(__file__)))
REPO = os.path.abspath(os.environ.get("VERIF_REPO", "/repo"))
DEPS = os.path.join(VERIF, ".deps")
NUC = "ACGT"

_dsw = None


def import_dsw():
    """Import dsw from the working tree of REPO (never from a cache, never from another copy)."""
    global _dsw
    if _dsw is not None:
        return _dsw
    sys.dont_write_bytecode = True
    if sys.path[0] != REPO:
        sys.path.insert(0, REPO)
    if os.path.isdir(DEPS) and DEPS not in sys.path:
        sys.path.append(DEPS)
    import dsw
    here = os.path.abspath(dsw.__file__)
    if not here.startswith(REPO + os.sep):
        raise RuntimeError("dsw imported from %s, expected under %s" % (here, REPO))
    _dsw = dsw
    return dsw


def dsw_modules():
    import_dsw()
    import dsw.spiderweb
    import dsw.graphized
    import dsw.operation
    import dsw.biofilter
    return [sys.modules["dsw"], dsw.spiderweb, dsw.graphized, dsw.operation, dsw.biofilter]


def jdump(obj):
    return json.dumps(obj, sort_keys=True, separators=(",", ":"), default=_jdefault)


def _jdefault(o):
    import numpy as np
    if isinstance(o, np.ndarray):
        return o.tolist()
    if isinstance(o, (np.integer,)):
        return int(o)
    if isinstance(o, (np.floating,)):
        return float(o)
    if isinstance(o, (np.bool_,)):
        return bool(o)
    if isinstance(o, (set, frozenset)):
        return sorted(o)
    if isinstance(o, bytes):
        return o.hex()
    return repr(o)


def h64(obj):
    """64-bit canonical hash of a JSON-able object (used for distinct-case counting)."""
    return hashlib.sha256(jdump(obj).encode()).hexdigest()[:16]


def derive_seed(*parts):
    return int(hashlib.sha256(("|".join(str(p) for p in parts)).encode()).hexdigest()[:16], 16)


def short(obj, n=300):
    s = obj if isinstance(obj, str) else jdump(obj)
    return s if len(s) <= n else s[:n] + "...(%d chars)" % len(s)
