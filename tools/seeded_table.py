#!/usr/bin/env python3
"""Print the markdown table of the seeded (independently written) breaking changes from seeded/*/meta.json."""
import json, os
root = os.path.join(os.path.dirname(os.path.dirname(os.path.abspath(__file__))), "seeded")
print("| seeded change | breaks | needs, in order to manifest | flagged by (quick tier) | violation kinds |")
print("|---|---|---|---|---|")
for d in sorted(os.listdir(root)):
    m = json.load(open(os.path.join(root, d, "meta.json")))
    kinds = sorted({k for c, r in m["checks"].items() if r["exit"] == 1 for k in r["violation_kinds"]})
    need = (m.get("needs_to_manifest") or "").replace("|", "/").replace("\n", " ")
    if len(need) > 170:
        need = need[:167] + "..."
    missed = [c for c, r in m["checks"].items() if r["exit"] != 1]
    print("| `%s` | %s | %s | %s%s | %s |" % (d, m["property"], need, ", ".join(m["caught_by"]),
          (" (silent: %s)" % ", ".join(missed)) if missed else "", "; ".join(kinds)[:160]))
