#!/bin/bash
# regenerate the table between the seeded-table markers of DESIGN.md
cd "$(dirname "$0")/.." && python3 - <<'PY'
import re, subprocess
s = open("DESIGN.md").read()
tbl = subprocess.run(["python3", "tools/seeded_table.py"], capture_output=True, text=True).stdout
s = re.sub(r"<!-- seeded-table-begin -->\n.*?<!-- seeded-table-end -->", lambda m: "<!-- seeded-table-begin -->\n" + tbl + "<!-- seeded-table-end -->", s, flags=re.S)
open("DESIGN.md", "w").write(s)
PY
