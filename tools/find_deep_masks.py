#!/venv/bin/python
"""Search (hill climbing on the independent oracle) for vertex masks whose threshold-1 closure needs many pruning rounds.
The masks found are stored in props/corpus_deep_masks.json and replayed by C03 / C04 on every run: a clean-up that stops
after a fixed number of sweeps, or recurses once per round, only shows on such masks.  Usage: find_deep_masks.py [seconds]"""
import json, os, random, sys, time
sys.path.insert(0, os.path.dirname(os.path.dirname(os.path.abspath(__file__))))
from vlib import graphs as G


def sweeps(k, S0):
    """Number of 'remove everything that cannot reach a branching vertex, cascade' sweeps the t=1 clean-up needs."""
    n = 4 ** k
    S = set(S0)
    # degree fixed point first (as the generator does)
    while True:
        drop = {v for v in S if not any((v * 4 + j) % n in S for j in range(4))}
        if not drop:
            break
        S -= drop
    count = 0
    while True:
        deg = {v: sum(1 for j in range(4) if (v * 4 + j) % n in S) for v in S}
        reach = {v for v in S if deg[v] >= 2}
        fr = list(reach)
        while fr:
            x = fr.pop()
            for u in G.preds(x, k):
                if u in S and u not in reach:
                    reach.add(u); fr.append(u)
        bad = S - reach
        if not bad:
            return count, S
        count += 1
        S -= bad
        while True:  # cascade of dead ends
            drop = {v for v in S if not any((v * 4 + j) % n in S for j in range(4))}
            if not drop:
                break
            S -= drop


def climb(k, rng, seconds):
    n = 4 ** k
    best = None
    t_end = time.time() + seconds
    while time.time() < t_end:
        cur = {v for v in range(n) if rng.random() < rng.choice([0.3, 0.45, 0.6])}
        cs, _ = sweeps(k, cur)
        stall = 0
        while stall < 400 and time.time() < t_end:
            cand = set(cur)
            for _ in range(rng.choice([1, 1, 2, 3])):
                v = rng.randrange(n)
                cand.symmetric_difference_update({v})
            s, final = sweeps(k, cand)
            if s > cs or (s == cs and rng.random() < 0.3):
                if s > cs:
                    stall = 0
                cur, cs = cand, s
            else:
                stall += 1
            if best is None or cs > best[0]:
                best = (cs, set(cur))
        yield best
    yield best


if __name__ == "__main__":
    secs = float(sys.argv[1]) if len(sys.argv) > 1 else 60
    rng = random.Random(20261003)
    out = []
    for k in (2, 3, 4):
        found = {}
        for b in climb(k, rng, secs / 3):
            if b is not None:
                found[b[0]] = b[1]
        for s in sorted(found, reverse=True)[:4]:
            _, final = sweeps(k, found[s])
            out.append(dict(k=k, sweeps=s, mask=G.mask_to_hex([1 if v in found[s] else 0 for v in range(4 ** k)]), final_vertices=len(final)))
        print(k, sorted(found, reverse=True)[:4])
    path = os.path.join(os.path.dirname(os.path.dirname(os.path.abspath(__file__))), "props", "corpus_deep_masks.json")
    json.dump(out, open(path, "w"), indent=1)
    print("wrote", path, len(out))
