#!/venv/bin/python
"""Regenerate /verif/MANIFEST.json from the property modules (metadata lives next to the checks)."""
import importlib, json, os, sys
HERE = os.path.dirname(os.path.dirname(os.path.abspath(__file__)))
sys.path.insert(0, HERE)
PY = "/venv/bin/python"
props = [json.loads(l) for l in open(os.path.join(HERE, "properties.jsonl"))]
checks, na = [], []
for p in props:
    pid = p["id"]
    if not os.path.exists(os.path.join(HERE, "props", pid + ".py")):
        na.append(dict(property_id=pid, reason="check not built yet (work in progress; design in DESIGN.md section 4)"))
        continue
    src = open(os.path.join(HERE, "props", pid + ".py")).read()
    ns = {}
    # metadata only: evaluate the simple top-level assignments without importing the repository
    import ast
    for node in ast.parse(src).body:
        if isinstance(node, ast.Assign) and len(node.targets) == 1 and isinstance(node.targets[0], ast.Name) \
                and node.targets[0].id in ("ID", "LEVEL", "LEVEL_TEXT", "LEVEL_NOTE", "TECHNIQUE", "DESIGN_REF"):
            ns[node.targets[0].id] = ast.literal_eval(node.value)
    checks.append(dict(
        property_id=pid,
        quick_cmd="%s /verif/vcheck.py %s --tier quick" % (PY, pid),
        thorough_cmd="%s /verif/vcheck.py %s --tier thorough" % (PY, pid),
        evidence_file="/verif/evidence/%s.json" % pid,
        replay_cmd_template="%s /verif/vcheck.py %s --replay {path}" % (PY, pid),
        engine="vcheck",
        level_claimed=dict(category=ns["LEVEL"], text=ns["LEVEL_TEXT"], design_ref=ns.get("DESIGN_REF", "DESIGN.md section 4, " + pid)),
        level_note=ns["LEVEL_NOTE"],
        technique=ns["TECHNIQUE"]))
manifest = dict(
    version=1,
    setup_cmd="/venv/bin/pip install --no-index --find-links /opt/veriftools/wheels --target /verif/.deps icontract >/dev/null 2>&1 || true",
    hooks=dict(guard="DSW_VERIF", enable="no source hooks: every monitor attaches from outside (wrappers, array proxies, sys.monitoring, audit hook); DSW_VERIF is reserved and never read by the source",
               baseline_off_cmd="cd /repo && /venv/bin/python -m pytest -ra -q -p no:cacheprovider --timeout=900 --continue-on-collection-errors",
               source_commits=[], add_only=True),
    engines=[dict(name="vcheck", path="/verif/vcheck.py", serves_properties=[c["property_id"] for c in checks],
                  kind_free_text="runtime monitoring: sharded generated/hostile workloads on the real functions under icontract contracts, a sys.monitoring loop clock and line probes, array access proxies, read-only traps, argument/global digests and an audit hook; independent reference oracles decide")],
    checks=checks,
    notes="Exit codes: 0 held, 1 violation (VIOLATION line + replay file), 2 inconclusive (never folded into held). VERIF_SEED / VERIF_TIER / VERIF_REPO are honoured. Repository defects found are recorded in KNOWN_FINDINGS.txt (fixed: / finding: lines).",
    not_applicable=na)
json.dump(manifest, open(os.path.join(HERE, "MANIFEST.json"), "w"), indent=1)
print("checks:", [c["property_id"] for c in checks], "not_applicable:", [n["property_id"] for n in na])
