#!/bin/bash
# usage: runall.sh [tier] [ids...]   -- runs the registered checks one after another, prints one line each
tier=${1:-quick}; shift
ids=${@:-C01 C02 C03 C04 C05 C06 C07 C08 C09 C10 C11 C12 C13 C14 C15 C16 C17 C18 C19 C20}
rc=0
for p in $ids; do
  out=$(/venv/bin/python "$(dirname "$0")/../vcheck.py" $p --tier $tier 2>&1); r=$?
  echo "$out" | grep -E "^(C[0-9]+ tier|VIOLATION|INCONCLUSIVE|KNOWN-FINDING|  kind)" | cut -c1-300
  [ $r -ne 0 ] && rc=1
done
exit $rc
