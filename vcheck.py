#!/venv/bin/python
"""Entry point:  vcheck.py <Cxx> [--tier quick|thorough] [--replay FILE]

exit 0  property held on everything explored (KNOWN-FINDING lines may be printed)
exit 1  violation, with a line `VIOLATION property=<id> replay=<path>`
exit 2  inconclusive (a deciding monitor was never reached, a shard died or hit the watchdog)
"""
import argparse
import os
import sys

sys.dont_write_bytecode = True
HERE = os.path.dirname(os.path.abspath(__file__))
if HERE not in sys.path:
    sys.path.insert(0, HERE)


def main():
    ap = argparse.ArgumentParser()
    ap.add_argument("pid")
    ap.add_argument("--tier", default=os.environ.get("VERIF_TIER", "quick"), choices=["quick", "thorough"])
    ap.add_argument("--seed", type=int, default=None)
    ap.add_argument("--replay")
    ap.add_argument("--worker", action="store_true")
    ap.add_argument("--shard", type=int, default=0)
    ap.add_argument("--nshards", type=int, default=None)
    ap.add_argument("--budget", type=float, default=None)
    ap.add_argument("--jobs", type=int, default=None)
    ap.add_argument("--out")
    a = ap.parse_args()
    from vlib import runner
    seed = a.seed
    if seed is None:
        try:
            seed = int(os.environ.get("VERIF_SEED", runner.DEFAULT_SEED))
        except ValueError:
            seed = runner.DEFAULT_SEED
    if a.worker:
        runner.worker_main(a.pid, a.tier, seed, a.shard, a.nshards, a.budget, a.out)
        return 0
    if a.replay:
        return runner.replay_main(a.pid, a.replay)
    return runner.check_main(a.pid, a.tier, seed, a.nshards, a.budget, a.jobs)


if __name__ == "__main__":
    sys.exit(main())
