"""C17 - reported capacity is the log2 spectral radius of the graph (DESIGN.md section 4, C17)."""
from math import gcd

import numpy as np

from vlib import clock, graphs as G, gens
from vlib.base import import_dsw
from vlib.coding import monitored, ArgGuard
from vlib.proxies import frozen

ID = "C17"
LEVEL = "exploration"
TECHNIQUE = ("runtime monitoring of the real approximate_capacity against certified Collatz-Wielandt bounds computed per strongly "
             "connected component (independent power iteration on the component's sub-matrix), with the structural precondition "
             "established two independent ways before a graph is judged")
LEVEL_TEXT = ("Held on every precondition graph of this run (one non-trivial aperiodic component, |lambda2| <= 0.85 |lambda1| by "
              "eigvals and measured contraction <= 0.9): |capacity - log2 rho| <= 1e-4 for repeats in {2,3,5,10} under random "
              "numpy seeds and for the deterministic single-start mode; on every graph: result <= 2, arc-less graph -> 0, "
              "d-regular live part -> exactly log2 d in single-start mode. Sampled; graphs that trigger the repaired stopping-rule "
              "defect (first two estimates coincide on a non-regular graph) are built constructively and have a floor.")
LEVEL_NOTE = ("Trusts numpy matrix-vector products and numpy.linalg.eigvals (the latter only to establish the precondition); the "
              "judged value log2 rho is bracketed by Collatz-Wielandt bounds with a gap below 1e-10. Graphs outside the "
              "precondition are not judged for the 1e-4 claim.")
PLAN = {"quick": dict(shards=16, budget=100), "thorough": dict(shards=16, budget=400)}
RULE = ("Arc subsets (complete graph minus random arcs, optionally with upstream tails and dead ends) and generated graphs of order "
        "2..4 (5 thorough) that meet the precondition; approximate_capacity(G, repeats=r) for r in {2,3,5,10} after "
        "numpy.random.seed(random) and for r = 1; regular graphs (exactly d live successors per live vertex, d = 1..4) built from "
        "threshold-d closed graphs; arbitrary arc subsets and the arc-less graph for the <= 2 / == 0 claims. Non-trivial: the "
        "graph is not regular (the answer is not log2 of an integer by construction); distinct = hash of (graph, repeats)."
        ' Also: graphs with a uniform raw out-degree whose arcs partly lead to arc-less vertices, and unpruned sparse arc subsets (sources, dead ends, thin cores; arc densities 0.25-0.7) at orders 2-4; graphs found by an oracle-side batched search for deceptive states of the power iteration (two equal consecutive estimates and an unchanged 2-norm / sum while the vector still moves); repeats = 1, 2 and one of 3/5/10 on every judged graph.')
TOL = 1e-4 + 1e-8


def setup(ctx):
    import_dsw()
    clock.install(lines=False)


# ---- oracle ----------------------------------------------------------------------------------------------------------

def analyse(acc):
    """dict(rho_lo, rho_hi, ok (precondition), why, regular) for an accessor; independent of dsw."""
    n = len(acc)
    comps = [c for c in G.scc_list(acc) if len(c) > 1 or acc[c[0]][c[0] % 4] == c[0]]
    comps = [c for c in comps if any(int(w) in set(c) for v in c for w in acc[v] if w >= 0)]
    if not comps:
        return dict(ok=False, why="no cycle", rho_lo=0.0, rho_hi=0.0, ncomp=0)
    best_lo = best_hi = 0.0
    info = []
    for c in comps:
        idx = {v: i for i, v in enumerate(c)}
        A = np.zeros((len(c), len(c)))
        for v in c:
            for w in acc[v]:
                if w >= 0 and int(w) in idx:
                    A[idx[v], idx[int(w)]] += 1.0
        # period by BFS levels
        level = {c[0]: 0}
        frontier = [c[0]]
        per = 0
        while frontier:
            nxt = []
            for u in frontier:
                for w in acc[u]:
                    w = int(w)
                    if w < 0 or w not in idx:
                        continue
                    if w not in level:
                        level[w] = level[u] + 1
                        nxt.append(w)
                    else:
                        per = gcd(per, level[u] + 1 - level[w])
            frontier = nxt
        # Collatz-Wielandt on B = A + I (same eigenvectors, rho + 1; converges also for periodic components)
        B = A + np.eye(len(c))
        x = np.ones(len(c))
        lo = hi = 0.0
        gaps = []
        for it in range(20000):
            y = B @ x
            r = y / x
            lo, hi = r.min() - 1.0, r.max() - 1.0
            gaps.append(hi - lo)
            if hi - lo < 1e-11:
                break
            x = y / y.max()
        info.append(dict(size=len(c), period=abs(per), lo=lo, hi=hi, A=A))
        best_lo, best_hi = max(best_lo, lo), max(best_hi, hi)
    out = dict(rho_lo=best_lo, rho_hi=best_hi, ncomp=len(comps))
    if len(comps) != 1:
        out.update(ok=False, why="several non-trivial components")
        return out
    c = info[0]
    if c["period"] != 1:
        out.update(ok=False, why="periodic (period %d)" % c["period"])
        return out
    if c["hi"] - c["lo"] > 1e-9:
        out.update(ok=False, why="oracle bounds did not close")
        return out
    ev = np.sort(np.abs(np.linalg.eigvals(c["A"])))[::-1]
    ratio = (ev[1] / ev[0]) if len(ev) > 1 and ev[0] > 0 else 0.0
    if ratio > 0.85:
        out.update(ok=False, why="spectral gap too small (|l2|/|l1| = %.3f)" % ratio)
        return out
    # measured contraction of plain power iteration on A (second, independent way)
    x = np.ones(len(c["A"]))
    prev_gap, worst = None, 0.0
    for it in range(400):
        y = c["A"] @ x
        if y.min() <= 0:
            x = y / y.max() if y.max() > 0 else x
            continue
        r = y / np.where(x > 0, x, 1.0)
        gap = r.max() - r.min()
        if prev_gap is not None and prev_gap > 1e-6 and it > 30:
            worst = max(worst, gap / prev_gap)
        prev_gap = gap
        x = y / y.max()
        if gap < 1e-12:
            break
    if worst > 0.9:
        out.update(ok=False, why="measured contraction %.3f > 0.9" % worst)
        return out
    out.update(ok=True, why="", ratio=float(ratio))
    return out


def cheap_precondition(acc):
    """Necessary part of the precondition (exactly one non-trivial strongly connected component) - a fast pre-filter."""
    comps = [c for c in G.scc_list(acc) if len(c) > 1 or acc[c[0]][c[0] % 4] == c[0]]
    return len(comps) == 1


def deceptive_graphs(k, batch, seed):
    """Search on the oracle side (batched numpy, nothing from dsw): random arc subsets of order k for which the max-norm power
    iteration from the all-ones start passes through a *deceptive state* - two consecutive estimates exactly equal while the
    vector still moves, and a scalar summary of the vector (2-norm or sum) unchanged as well.  Any stopping rule that looks
    at less than the whole vector stops there.  Returns the live-arc masks (m, 4^k, 4)."""
    n = 4 ** k
    r = np.random.RandomState(seed)
    dens = r.choice([0.3, 0.4, 0.5, 0.6, 0.7, 0.8], batch)
    live = r.random_sample((batch, n, 4)) < dens[:, None, None]
    idx = (np.arange(n)[:, None] * 4 + np.arange(4)[None, :]) % n
    x = (live.sum(-1) > 0).astype(float)
    prev_e = np.full(batch, -1.0)
    flag = np.zeros(batch, bool)
    for _ in range(40):
        y = (x[:, idx] * live).sum(-1)
        e = y.max(-1)
        ok = e > 0
        xn = np.where(ok[:, None], y / np.where(ok, e, 1.0)[:, None], 0.0)
        moved = np.abs(xn - x).max(-1) > 1e-7
        same2 = np.abs(np.sqrt((xn ** 2).sum(-1)) - np.sqrt((x ** 2).sum(-1))) < 1e-10
        same1 = np.abs(xn.sum(-1) - x.sum(-1)) < 1e-10
        flag |= (e == prev_e) & ok & moved & (same2 | same1)
        prev_e, x = e, xn
    return live[flag]


def first_two_estimates(acc):
    """Largest-entry estimates of the first two iterations from the all-ones start (dead vertices zeroed)."""
    n = len(acc)
    deg = (acc >= 0).sum(axis=1)
    x = (deg > 0).astype(float)
    ests = []
    for _ in range(2):
        y = np.zeros(n)
        for v in range(n):
            for w in acc[v]:
                if w >= 0:
                    y[v] += x[w]
        e = y.max()
        ests.append(e)
        x = y / e if e > 0 else y
    return ests


def regular_degree(acc):
    deg = (acc >= 0).sum(axis=1)
    live = deg > 0
    if not live.any():
        return None
    ds = set(deg[live].tolist())
    if len(ds) != 1:
        return None
    for v in np.nonzero(live)[0]:
        for w in acc[v]:
            if w >= 0 and not live[w]:
                return None
    return ds.pop()


# ---- generators --------------------------------------------------------------------------------------------------------

def _dense_minus(rng, k, protect_trigger):
    n = 4 ** k
    acc = G.complete(k)
    protected = set()
    if protect_trigger:
        v = rng.randrange(n)
        protected = {v} | set(G.succs(v, k))
    rows = [u for u in range(n) if u not in protected]
    for _ in range(rng.randint(1, max(2, n // 3))):
        u = rng.choice(rows)
        acc[u, rng.randrange(4)] = -1
    return G.prune_arcs(acc, k)


def _with_tails(rng, acc, k):
    """Add upstream tails (vertices outside that lead into the graph) and dead ends (arcs to arc-less vertices)."""
    acc = acc.copy()
    n = 4 ** k
    live = set(G.live_vertices(acc))
    outside = [v for v in range(n) if v not in live]
    rng.shuffle(outside)
    for u in outside[: rng.randint(0, 3)]:          # upstream: u -> live vertex
        js = [j for j in range(4) if (u * 4 + j) % n in live]
        if js:
            j = rng.choice(js)
            acc[u, j] = (u * 4 + j) % n
    live2 = set(G.live_vertices(acc))
    for v in rng.sample(sorted(live), min(len(live), rng.randint(0, 3))):   # dead ends: v -> arc-less vertex
        js = [j for j in range(4) if acc[v, j] < 0 and (v * 4 + j) % n not in live2]
        if js:
            j = rng.choice(js)
            acc[v, j] = (v * 4 + j) % n
    return acc


def _uniform_raw_degree(rng, k):
    """Every vertex that has arcs has the same number d of arcs, but some of them lead to arc-less vertices: the
    out-degree is uniform, the graph is not regular and its spectral radius is below d."""
    d = rng.choice([2, 3, 3])
    n = 4 ** k
    mask = gens.rand_mask(rng, k, rng.choice([0.6, 0.75, 0.9]))
    S, _ = G.closed_subgraph(k, {i for i, m in enumerate(mask) if m}, d)
    if not S or len(S) == n:
        S = set(S)
        if len(S) == n:
            for v in rng.sample(range(n), max(1, n // 6)):
                S.discard(v)
            S, _ = G.closed_subgraph(k, S, d)
        if not S:
            return None
    acc = -np.ones((n, 4), dtype=int)
    changed = 0
    for v in S:
        inside = [j for j in range(4) if (v * 4 + j) % n in S]
        outside = [j for j in range(4) if (v * 4 + j) % n not in S]
        keep = rng.sample(inside, d)
        if outside and rng.random() < 0.3:
            keep = keep[:-1] + [rng.choice(outside)]      # one arc to an arc-less vertex
            changed += 1
        for j in keep:
            acc[v, j] = (v * 4 + j) % n
    if changed and rng.random() < 0.5:
        # a second level of tail: an arc-less vertex reached from the graph gets one arc to another arc-less vertex
        dead = [w for w in {int(x) for x in acc.reshape(-1) if x >= 0} if (acc[w] < 0).all()]
        rng.shuffle(dead)
        for w in dead[:2]:
            for j in range(4):
                x = (w * 4 + j) % n
                if (acc[x] < 0).all() and x != w:
                    acc[w, j] = x
                    break
    return acc if changed else None


def generate(ctx):
    rng = ctx.rng
    ks = ctx.pick([2, 2, 3, 3, 4], [2, 3, 3, 4, 4, 5])
    yield "bounds", dict(k=2, arcs="0", fam="arc-less")
    yield "bounds", dict(k=3, arcs="0", fam="arc-less")
    for _ in range(ctx.pick(40, 300)):
        k = rng.choice([2, 2, 3, 3, 4])
        d = rng.choice([1, 2, 2, 3, 3, 4])
        acc, S = gens.closed_graph(rng, k, d, density=rng.choice([0.85, 0.95, 1.0]))
        if acc is None:
            continue
        for v in S:
            js = [j for j in range(4) if acc[v, j] >= 0]
            for j in rng.sample(js, len(js) - d):
                acc[v, j] = -1
        yield "regular", dict(gens.graph_case(acc, k), d=d)
    for _ in range(ctx.pick(500, 4000)):
        k = rng.choice(ks)
        fam = rng.choice(["dense", "dense", "trigger", "trigger", "generated", "tails", "arc", "uniform-raw-degree", "uniform-raw-degree",
                          "sparse", "sparse", "sparse", "sparse", "sparse-low", "sparse-low", "sparse-low", "sparse-low"])
        if fam in ("dense", "trigger"):
            acc = _dense_minus(rng, k, fam == "trigger")
        elif fam == "generated":
            acc, _S = gens.closed_graph(rng, k, rng.choice([1, 2, 2, 3]), density=rng.choice([0.8, 0.9, 0.97]))
        elif fam == "tails":
            acc, _S = gens.closed_graph(rng, k, rng.choice([2, 3]), density=rng.choice([0.7, 0.85]))
            if acc is not None:
                acc = _with_tails(rng, acc, k)
        elif fam == "uniform-raw-degree":
            acc = _uniform_raw_degree(rng, k)
        elif fam == "sparse-low":
            # arc density 0.25-0.35: low-capacity graphs with chains of out-degree-1 vertices, where the largest entry of the
            # iterate can sit on a chain while the branching vertices are still catching up
            k = rng.choice([2, 3, 3, 3, 4])
            n = 4 ** k
            acc = -np.ones((n, 4), dtype=int)
            d = rng.choice([0.25, 0.3, 0.35])
            for v in range(n):
                for j in range(4):
                    if rng.random() < d:
                        acc[v, j] = (v * 4 + j) % n
        elif fam == "sparse":
            # unpruned sparse arc subsets (sources without incoming arcs, dead ends, thin cyclic cores); most fall outside
            # the precondition and are only used for the <= 2 claim, the rest are judged
            k = rng.choice([2, 2, 2, 3])
            n = 4 ** k
            acc = -np.ones((n, 4), dtype=int)
            d = rng.choice([0.4, 0.5, 0.6, 0.7])
            for v in range(n):
                for j in range(4):
                    if rng.random() < d:
                        acc[v, j] = (v * 4 + j) % n
        else:
            acc = gens.arc_graph(rng, k, density=rng.choice([0.7, 0.85, 0.95]))
        if acc is None or not (acc >= 0).any():
            continue
        yield "capacity", dict(gens.graph_case(acc, k), fam=fam, npseed=rng.getrandbits(32))
    for _ in range(ctx.pick(1200, 10000)):
        k = rng.choice([2, 3, 3, 3])
        n = 4 ** k
        d = rng.choice([0.25, 0.3, 0.35])
        acc = -np.ones((n, 4), dtype=int)
        for v in range(n):
            for j in range(4):
                if rng.random() < d:
                    acc[v, j] = (v * 4 + j) % n
        if (acc >= 0).any() and cheap_precondition(acc):
            yield "capacity", dict(gens.graph_case(acc, k), fam="sparse-low", npseed=rng.getrandbits(32))
    found = 0
    for _ in range(ctx.pick(12000, 60000)):
        if found >= ctx.pick(20, 120):
            break
        k = 2
        acc = -np.ones((16, 4), dtype=int)
        d = rng.choice([0.15, 0.2, 0.25, 0.3])
        for v in range(16):
            for j in range(4):
                if rng.random() < d:
                    acc[v, j] = (v * 4 + j) % 16
        if not (acc >= 0).any() or not cheap_precondition(acc):
            continue
        info = analyse(acc)
        if info["why"].startswith("periodic (period") and int(info["why"].split("period ")[1].rstrip(")")) >= 3:
            found += 1
            yield "cap_bounds", dict(gens.graph_case(acc, k), period=int(info["why"].split("period ")[1].rstrip(")")), seed0=rng.getrandbits(24))
    for k, batch in ((2, ctx.pick(20000, 150000)), (3, ctx.pick(3000, 25000))):
        n = 4 ** k
        full = (np.arange(n)[:, None] * 4 + np.arange(4)[None, :]) % n
        for live in deceptive_graphs(k, batch, rng.getrandbits(31)):
            acc = np.where(live, full, -1).astype(int)
            if cheap_precondition(acc):
                yield "capacity", dict(gens.graph_case(acc, k), fam="deceptive", npseed=rng.getrandbits(32))
    for gi, (k, d) in enumerate([(2, 2), (2, 3), (3, 2), (3, 3), (4, 2), (4, 3)]):
        for dead in (0, 4 ** k - 1, None):
            if ctx.mine(gi):
                yield "regular_dead", dict(k=k, d=d, dead=dead if dead is not None else rng.randrange(4 ** k), seed=rng.getrandbits(30))
    for k in (5, 6, 7, 8):
        if ctx.mine(k):
            cols = rng.sample(range(4), rng.choice([1, 2, 3]))     # keep these nucleotide columns: a d-regular graph
            yield "regular_large", dict(k=k, cols=sorted(cols))
        if k == 8 and ctx.mine(k + 1):
            # 65 536 vertices with vertex 0 (AAAAAAAA) live and carrying weight, every vertex with a missing arc
            yield "regular_large", dict(k=k, cols=[0, 1, 2] if rng.random() < 0.5 else [0, 3])
    for _ in range(ctx.pick(8, 60)):        # G2: one accessor object of order 4/5 edited in place between capacity calls
        k = rng.choice([4, 4, 5])
        yield "edit_sequence", dict(k=k, seed=rng.getrandbits(30), steps=rng.randint(2, 5), repeats=rng.choice([1, 1, 2, 3]))
    for _ in range(ctx.pick(20, 200)):
        k = rng.choice([1, 2, 3])
        n = 4 ** k
        acc = -np.ones((n, 4), dtype=int)
        dens = rng.choice([0.05, 0.2, 0.5, 0.9, 1.0])
        for v in range(n):
            for j in range(4):
                if rng.random() < dens:
                    acc[v, j] = (v * 4 + j) % n
        yield "bounds", dict(gens.graph_case(acc, k), fam="any")


def _cap(ctx, dsw, acc, repeats, where, npseed=None):
    if npseed is not None:
        np.random.seed(npseed)
    out = monitored(dsw.approximate_capacity, 3000 * len(acc) * repeats + 10 ** 6, acc, repeats=repeats)
    if out.kind != "ok":
        ctx.fail("capacity-" + out.kind, "approximate_capacity(repeats=%d) %s; %s" % (repeats, out.describe(), where))
        return None
    try:
        val = float(out.value)
    except Exception:
        ctx.fail("capacity-not-a-number", "approximate_capacity(repeats=%d) returned %r; %s" % (repeats, out.value, where))
        return None
    if not val <= 2.0:
        ctx.fail("capacity-above-2", "approximate_capacity(repeats=%d) = %r > 2; %s" % (repeats, val, where))
    return val


def check_capacity(ctx, case):
    dsw = import_dsw()
    acc = gens.acc_of(case)
    k = case["k"]
    where = "k=%d graph=%s (%s)" % (k, case["arcs"], case["fam"])
    info = analyse(acc)
    reg = regular_degree(acc)
    facc = frozen(acc)
    if hash(case["arcs"]) % 7 == 0:
        facc = np.asfortranarray(acc)          # same values, column-major memory; writable so that a missing copy shows in the digest
        ctx.cls("accessor layout|F")
    guard = ArgGuard(accessor=facc)
    if not info["ok"]:
        ctx.cls("not judged|" + info["why"].split(" (")[0].split(" 0.")[0].split(" 1.")[0])
        _cap(ctx, dsw, facc, 1, where)
        return ctx.done("capacity", case, False)
    lo, hi = np.log2(info["rho_lo"]), np.log2(info["rho_hi"])
    e1, e2 = first_two_estimates(acc)
    trigger = reg is None and e1 == e2
    for r in (1, 2, 2, ctx.rng.choice([3, 5, 10]), ctx.rng.choice([3, 5, 10])) if case["fam"] == "sparse-low" else (1, 2, ctx.rng.choice([3, 5, 10])):
        val = _cap(ctx, dsw, facc, r, where, npseed=(case["npseed"] + r + ctx.rng.getrandbits(16)) % 2 ** 32)
        if val is None:
            continue
        err = max(lo - val, val - hi, 0.0)
        ctx.obs("max_abs_error_repeats=%s" % ("1" if r == 1 else ">1"), err)
        if err > TOL:
            ctx.fail("capacity-off:" + ("single-start" if r == 1 else "random-start"),
                     "approximate_capacity(repeats=%d) = %.9f but log2 rho in [%.9f, %.9f] (error %.3g, |l2|/|l1| = %.3f); %s" % (
                         r, val, lo, hi, err, info["ratio"], where))
        ctx.evaluations += 1
    if guard.changed():
        ctx.fail("argument-modified", "the accessor changed: %s; %s" % (guard.changed(), where))
    ctx.cls("precondition graph")
    ctx.cls("precondition graph|" + case["fam"])
    if trigger:
        ctx.cls("non-regular graph whose first two estimates coincide")
    if reg is not None:
        ctx.cls("precondition graph that is regular")
    deg = (acc >= 0).sum(axis=1)
    if reg is None and len(set(deg[deg > 0].tolist())) == 1:
        ctx.cls("non-regular graph with a uniform raw out-degree (arcs into arc-less vertices)")
    ctx.cls("k|%d" % k)
    ctx.done("capacity", case, reg is None)


def check_regular(ctx, case):
    dsw = import_dsw()
    acc = gens.acc_of(case)
    d = regular_degree(acc)
    if d is None:
        return
    where = "k=%d %d-regular graph=%s" % (case["k"], d, case["arcs"])
    val = _cap(ctx, dsw, frozen(acc), 1, where)
    if val is not None and val != float(np.log2(float(d))):
        ctx.fail("regular-not-exact", "single-start capacity of a %d-regular graph is %r, expected exactly %r; %s" % (d, val, float(np.log2(float(d))), where))
    ctx.cls("regular|d=%d" % d)
    ctx.done("regular", case, True)


def check_bounds(ctx, case):
    dsw = import_dsw()
    acc = gens.acc_of(case)
    where = "k=%d graph=%s" % (case["k"], case["arcs"])
    for r in (1, 2):
        val = _cap(ctx, dsw, frozen(acc), r, where, npseed=7)
        if val is not None and not (acc >= 0).any() and val != 0.0:
            ctx.fail("arc-less-not-zero", "approximate_capacity(arc-less graph, repeats=%d) = %r; %s" % (r, val, where))
        if val is not None and val < 0:
            ctx.cls("bounds|negative result on a graph outside the precondition (not judged: the property bounds it only from above)")
    ctx.cls("bounds|" + ("arc-less" if not (acc >= 0).any() else "any graph"))
    ctx.done("bounds", case, True)


def estimates_at_the_cap(acc, seeds, iterations=503):
    """Oracle-side simulation (batched over seeds) of the max-norm power iteration from the random starts numpy hands out
    for these seeds; returns the last four largest-entry estimates per seed, shape (4, len(seeds))."""
    n = len(acc)
    live = acc >= 0
    idx = np.where(live, acc, 0)
    starts = []
    for sd in seeds:
        np.random.seed(sd)
        starts.append(np.abs(np.random.random(size=(n,))))
    x = np.array(starts)
    x[:, live.sum(-1) == 0] = 0.0
    tail = []
    for _ in range(iterations):
        y = (x[:, idx] * live).sum(-1)
        e = y.max(-1)
        x = np.where((e > 0)[:, None], y / np.where(e > 0, e, 1.0)[:, None], 0.0)
        tail = (tail + [e])[-4:]
    return np.array(tail)


def check_cap_bounds(ctx, case):
    """Graphs whose iteration never settles (periodic cyclic part) run into maximum_iteration.  Whatever the fall-back
    reports, the result must not exceed 2 bits.  Seeds are picked by simulating the estimate sequence on the oracle side:
    those whose last estimates are closest to an arithmetic progression (where any extrapolation explodes), the widest
    spread, and a few at random."""
    dsw = import_dsw()
    acc = gens.acc_of(case)
    where = "k=%d graph=%s (periodic, period %d)" % (case["k"], case["arcs"], case["period"])
    seeds = [case["seed0"] + i for i in range(240)]
    t = estimates_at_the_cap(acc, seeds)
    risk = np.zeros(len(seeds))
    for a, b, c in ((t[0], t[1], t[2]), (t[1], t[2], t[3])):
        curv = c - 2 * b + a
        with np.errstate(divide="ignore", invalid="ignore"):
            pred = np.where(curv != 0, c - (c - b) ** 2 / curv, c)
        risk = np.maximum(risk, np.nan_to_num(pred, nan=0.0, posinf=1e300, neginf=0.0))
    spread = t.max(0) - t.min(0)
    ctx.obs("largest spread of the last estimates at the iteration cap", float(spread.max()))
    picked = list(np.argsort(-risk)[:4]) + list(np.argsort(-spread)[:1]) + [ctx.rng.randrange(len(seeds))]
    for i in dict.fromkeys(int(x) for x in picked):
        for r in (2, 3):
            val = _cap(ctx, dsw, frozen(acc), r, where + " numpy seed %d" % seeds[i], npseed=seeds[i])
            ctx.evaluations += 1
    if spread.max() > 1e-6:
        ctx.cls("bounds|estimates still cycling at the iteration cap")
    ctx.done("cap_bounds", case, True)


def check_regular_dead(ctx, case):
    """Every vertex but one is live and has exactly d live successors; the arcs into the one arc-less vertex are kept as
    well (they lead nowhere).  The property promises exactly log2 d."""
    dsw = import_dsw()
    import random as _r
    rng = _r.Random(case["seed"])
    k, d, dead = case["k"], case["d"], case["dead"]
    n = 4 ** k
    acc = -np.ones((n, 4), dtype=int)
    for v in range(n):
        if v == dead:
            continue
        live_js = [j for j in range(4) if (v * 4 + j) % n != dead]
        for j in rng.sample(live_js, d):
            acc[v, j] = (v * 4 + j) % n
        for j in range(4):
            if (v * 4 + j) % n == dead:
                acc[v, j] = dead                       # an extra arc into the arc-less vertex
    where = "k=%d, every vertex except %d has exactly %d live successors, arcs into %d kept; graph=%s" % (k, dead, d, dead, G.acc_to_hex(acc))
    val = _cap(ctx, dsw, frozen(acc), 1, where)
    if val is not None and val != float(np.log2(float(d))):
        ctx.fail("regular-not-exact", "single-start capacity is %r, expected exactly %r; %s" % (val, float(np.log2(float(d))), where))
    ctx.cls("regular|one arc-less vertex %s" % ("0" if dead == 0 else "last" if dead == n - 1 else "other"))
    ctx.done("regular_dead", case, True)


def check_regular_large(ctx, case):
    """d-regular graph on the alphabet `cols` embedded in the order-k de Bruijn graph (orders 5..8, 65 536 vertices at 8)."""
    dsw = import_dsw()
    k, cols = case["k"], case["cols"]
    n = 4 ** k
    idx = np.arange(n)
    digits = np.stack([(idx // 4 ** (k - 1 - i)) % 4 for i in range(k)], axis=1)
    member = np.isin(digits, cols).all(axis=1)          # k-mers over the kept nucleotides
    acc = -np.ones((n, 4), dtype=int)
    for j in cols:
        acc[member, j] = (idx[member] * 4 + j) % n
    d = len(cols)
    where = "k=%d graph over the nucleotides %s (%d-regular, %d vertices)" % (k, ["ACGT"[j] for j in cols], d, int(member.sum()))
    val = _cap(ctx, dsw, frozen(acc), 1, where)
    if val is not None and val != float(np.log2(float(d))):
        ctx.fail("regular-not-exact", "single-start capacity of a %d-regular graph is %r, expected exactly %r; %s" % (d, val, float(np.log2(float(d))), where))
    if d >= 2:
        v2 = _cap(ctx, dsw, frozen(acc), 2, where, npseed=case["k"])
        if v2 is not None and abs(v2 - np.log2(d)) > TOL:
            ctx.fail("capacity-off:random-start", "capacity %r of a %d-regular primitive graph, expected log2 %d; %s" % (v2, d, d, where))
    ctx.cls("regular|order %d" % k)
    ctx.done("regular_large", case, True)


def check_edit_sequence(ctx, case):
    """G2: the same accessor object (order 4-5: more than 1000 entries) is thinned in place between capacity calls."""
    dsw = import_dsw()
    import random as _r
    rng = _r.Random(case["seed"])
    k = case["k"]
    n = 4 ** k
    acc = G.complete(k)
    for step in range(case["steps"]):
        rows = rng.sample(range(8, n - 8), max(3, n // 40))          # edits in the middle rows only
        for v in rows:
            acc[v, rng.randrange(4)] = -1
        info = analyse(acc)
        np.random.seed(case["seed"] + step)
        out = monitored(dsw.approximate_capacity, 3000 * n * case["repeats"] + 10 ** 6, acc, repeats=case["repeats"])
        if out.kind != "ok":
            ctx.fail("capacity-" + out.kind, "step %d: %s" % (step, out.describe()))
            return
        if info["ok"]:
            lo, hi = np.log2(info["rho_lo"]), np.log2(info["rho_hi"])
            err = max(lo - float(out.value), float(out.value) - hi, 0.0)
            if err > TOL:
                ctx.fail("capacity-stale-after-edit", "step %d: after the same accessor object (order %d) was thinned in place, approximate_capacity(repeats=%d) = %.9f but log2 rho in [%.9f, %.9f]" % (
                    step, k, case["repeats"], float(out.value), lo, hi), "edit_sequence", case)
                return
            ctx.evaluations += 1
    ctx.cls("capacity re-requested after in-place edits of the same accessor")
    ctx.done("edit_sequence", case, True)


CHECKS = {"cap_bounds": check_cap_bounds, "regular_dead": check_regular_dead, "regular_large": check_regular_large, "edit_sequence": check_edit_sequence, "capacity": check_capacity, "regular": check_regular, "bounds": check_bounds}


def floors(agg, tier):
    out = []
    c = agg["classes"]
    for name, need in (("precondition graph", 300), ("non-regular graph whose first two estimates coincide", 30),
                       ("bounds|arc-less", 2), ("bounds|any graph", 100), ("precondition graph|tails", 20),
                       ("precondition graph|generated", 20), ("precondition graph|sparse", 100), ("precondition graph|sparse-low", 300), ("precondition graph|deceptive", 200), ("bounds|estimates still cycling at the iteration cap", 20), ("accessor layout|F", 50),
                       ("capacity re-requested after in-place edits of the same accessor", 50), ("regular|order 8", 2), ("regular|one arc-less vertex 0", 6),
                       ("non-regular graph with a uniform raw out-degree (arcs into arc-less vertices)", 15)):
        if c.get(name, 0) < need:
            out.append("%s observed %d < %d" % (name, c.get(name, 0), need))
    reg = sum(v for k, v in c.items() if k.startswith("regular|d="))
    if reg < 40:
        out.append("regular graphs observed %d < 40" % reg)
    for d in (1, 2, 3, 4):
        if c.get("regular|d=%d" % d, 0) < 3:
            out.append("regular graphs of degree %d observed %d < 3" % (d, c.get("regular|d=%d" % d, 0)))
    return out
