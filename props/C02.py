"""C02 - every emitted strand obeys the biochemical constraints it was generated for (DESIGN.md section 4, C02)."""
import random

import numpy as np

from vlib import clock, graphs as G, gens, oracles
from vlib.base import import_dsw, derive_seed, jdump
from vlib.coding import monitored, encode_budget, table_of, rand_table_spec, is_strand
from props.C11 import make_user_filter, asym_filter
from props.C12 import ref_valid

ID = "C02"
LEVEL = "exploration"
TECHNIQUE = ("runtime monitoring of the real pipeline find_vertices -> connect_coding_graph -> encode: every window of start "
             "k-mer + strand is handed back to the filter object and to an independent window predicate; exhaustive "
             "enumeration of LocalBioFilter constructor configurations")
LEVEL_TEXT = ("Held on every (filter, k, t, start, message, table, mode) case of this run, except the listed known finding: the "
              "constructor accepts max_homopolymer_runs == observed_length, which is not window-decidable. Constructor grid "
              "k = 1..8 x run limit x motif length is enumerated exhaustively; strands are sampled.")
LEVEL_NOTE = ("Whole-sequence checks are demanded only for window-decidable configurations, as the property states. User filters "
              "follow docs/source/customization.rst. The independent predicate is C12's rational oracle.")
PLAN = {"quick": dict(shards=16, budget=100), "thorough": dict(shards=16, budget=400)}
EXHAUSTIVE = ["LocalBioFilter constructor grid k=1..8 x run in {None,0..k+2} x motif length in {none,1..k+2}"]
RULE = ("f -> find_vertices(k, f) -> connect_coding_graph(k, mask, t) -> encode(m, G, v, mode, table) with f in {LocalBioFilter "
        "over run limit x GC range (degenerate, asymmetric) x motif sets; user filters as documented: forbidden k-mer sets, the "
        "documentation's regionalized GC filter, parity / positional predicates}, k = 1..5 (6 thorough), t = 1..4, every "
        "retained start for k <= 2 (sampled otherwise), C01 message classes, tables on/off, fast mode where no out-degree 3. "
        "Verdict: every k-window of kmer(v)+strand accepted by f (and, for LocalBioFilter, by the independent predicate); for "
        "window-decidable f also f.valid(strand, only_last=False) and f.valid(kmer(v)+strand, only_last=False). Constructor: "
        "accepted => window-decidable. Non-trivial: the mask excludes a vertex and the strand is >= k long; distinct = hash.")


def setup(ctx):
    import_dsw()
    clock.install(lines=False)


def classify(v):
    if v["kind"] == "constructor-accepts-undecidable":
        c = v["case"]
        # the listed finding is exactly: run limit == window, and nothing else wrong (motifs, as the built filter holds
        # them, all fit the window).  A bare string is held symbol by symbol by the unmodified filter.
        motif_ok = c.get("motif_len") is None or c["motif_len"] <= c["k"] or (c.get("bare") and "motif too long" not in v["detail"])
        if c.get("run") is not None and c["run"] == c["k"] and motif_ok:
            return "ctor-accepts-run-equal-window"
    return None


def generate(ctx):
    rng = ctx.rng
    i = 0
    for k in range(1, 9):
        for run in [None] + list(range(0, k + 3)):
            for ml in [None] + list(range(1, k + 3)):
                if ctx.mine(i):
                    yield "ctor", dict(k=k, run=run, motif_len=ml)
                    if ml is not None:
                        yield "ctor", dict(k=k, run=run, motif_len=ml, bare=True)
                i += 1
    ctx.exhausted[EXHAUSTIVE[0]] = True
    for _ in range(ctx.pick(150, 1500)):
        # motif *lists*: several motifs of lengths around the window, in any order (an over-long one first, last, in the middle,
        # alphabetically first or last), as a list or a tuple
        k = rng.randint(1, 8)
        lens = [rng.randint(1, k + 2) for _ in range(rng.randint(2, 4))]
        if rng.random() < 0.6:
            lens[rng.randrange(len(lens))] = k + rng.choice([1, 1, 2])
        yield "ctor", dict(k=k, run=rng.choice([None, None, max(k - 1, 0)]), motif_len=max(lens), motifs=[gens.random_dna(rng, n) for n in lens],
                           container=rng.choice(["list", "list", "tuple"]))
    for _ in range(ctx.pick(25, 250)):   # G2: one filter object, tightened between two runs of the pipeline
        k = rng.choice([2, 3, 3, 4])
        yield "filter_sequence", dict(k=k, t=rng.choice([1, 2]), run0=rng.choice([None, k - 1 if k > 2 else None]), run1=rng.choice([1, 2]) if k > 2 else 1,
                                      motif=gens.random_dna(rng, rng.randint(1, k)), gc=rng.choice([None, [0.25, 0.75], [0.0, 1.0]]))
    if ctx.shard < ctx.pick(6, 32):      # long payloads: strands beyond 1000 nt, judged by the whole-sequence check as well
        k = rng.choice([3, 4, 5])
        spec = dict(kind="local", cfg=dict(k=k, run=rng.choice([None, k - 1]), gc=rng.choice([[0.25, 0.75], [0.4, 0.6], [0.2, 0.8]]), motifs=None))
        yield "pipeline", dict(k=k, t=rng.choice([1, 2]), filter=spec, n_msgs=1, long=True)
    preds = ["forbidden", "forbidden", "doc-gc", "doc-gc", "parity", "positional", "first-ne-last", "prefix"]
    for _ in range(ctx.pick(400, 4000)):
        k = rng.choice(ctx.pick([1, 2, 2, 3, 3, 4, 5], [1, 2, 2, 3, 3, 4, 4, 5, 5, 6]))
        if rng.random() < 0.6:
            run = rng.choice([None, 1, 2, 3, k - 1 if k > 1 else None, k - 1 if k > 1 else None, k])
            if run is not None and run > k:
                run = k
            gc = rng.choice([None, [0.5, 0.5], [0.25, 0.75], [0.0, 0.5], [0.5, 1.0], [0.4, 0.6], [0.3, 0.7], [0.0, 1.0]])
            if rng.random() < 0.35:   # bounds placed strictly between two attainable counts: exact in any arithmetic
                a, b = sorted(rng.sample(range(0, 2 * k + 1), 2))
                gc = [max(0.0, (a - 0.5) / k), min(1.0, (b + 0.5) / k)] if rng.random() < 0.5 else [a / (2 * k) if a % 2 else max(0.0, (a - 1) / (2 * k)), min(1.0, (b | 1) / (2 * k))]
            motifs = rng.choice([None, None, [gens.random_dna(rng, rng.randint(1, k))],
                                 [gens.random_dna(rng, rng.randint(1, k)) for _ in range(3)]])
            if motifs and rng.random() < 0.3:
                motifs = motifs + [oracles.revcomp(motifs[0])]     # a motif listed together with its own reverse complement
            spec = dict(kind="local", cfg=dict(k=k, run=run, gc=gc, motifs=motifs))
        else:
            spec = dict(kind="user", spec=dict(pred=rng.choice(preds), seed=rng.getrandbits(30), p=rng.choice([0.05, 0.15, 0.3]),
                                               w=rng.randint(1, k), bias=rng.choice([0.0, 0.1, 0.25, 0.34]), ret="bool",
                                               style="documented"))
        if rng.random() < 0.12 and k >= 2:
            spec = dict(kind="asym", cfg=dict(k=k, run=rng.choice([None, min(2, k), min(3, k)]), gc=rng.choice([None, [0.25, 0.75], [0.0, 1.0]]), motifs=None),
                        banned=[rng.choice(["GGG", "GG", "AC", "TTG", "CAT", "TC"])[:k]])
        yield "pipeline", dict(k=k, t=rng.choice([1, 1, 2, 2, 3, 4]), filter=spec, n_msgs=ctx.pick(5, 8))


def check_ctor(ctx, case):
    dsw = import_dsw()
    k, run, ml = case["k"], case["run"], case["motif_len"]
    motifs = None if ml is None else ["ACGTACGTACGT"[:ml]]
    if case.get("motifs"):
        motifs = list(case["motifs"]) if case.get("container") != "tuple" else tuple(case["motifs"])
        ctx.cls("ctor|several motifs (%s)" % case.get("container"))
    if case.get("bare") and motifs:
        motifs = motifs[0]             # a single motif handed over as a plain string
    out = monitored(dsw.LocalBioFilter, 10000, observed_length=k, max_homopolymer_runs=run, undesired_motifs=motifs)
    decidable = (run is None or run < k) and (ml is None or ml <= k)
    if out.kind == "ok" and (case.get("bare") or case.get("motifs")):
        # judged from the filter that was built: the motifs it holds (a string is iterated symbol by symbol by the
        # unmodified filter, which is window-decidable) and its run limit
        held = out.value.undesired_motifs
        held = [] if held is None else list(held)
        r2 = out.value.max_homopolymer_runs
        decidable = (r2 is None or r2 < k) and all(len(m) <= k for m in held)
        if case.get("bare"):
            ctx.cls("ctor|bare-string motif")
    if out.kind == "ok":
        ctx.cls("ctor|accepted")
        if not decidable:
            why = []
            if out.value.max_homopolymer_runs is not None and out.value.max_homopolymer_runs >= k:
                why.append("run limit >= window")
            if any(len(m) > k for m in (out.value.undesired_motifs or [])):
                why.append("motif too long")
            ctx.fail("constructor-accepts-undecidable",
                     "LocalBioFilter(observed_length=%d, max_homopolymer_runs=%s, motif length %s%s) was accepted but is not "
                     "window-decidable (%s)" % (k, run, ml if not case.get("motifs") else "%s of %s" % (ml, case["motifs"]),
                                                " as a bare string" if case.get("bare") else "", ", ".join(why)))
    elif out.kind == "raised" and isinstance(out.exc, ValueError):
        ctx.cls("ctor|rejected")
    else:
        ctx.fail("constructor-" + out.kind, "LocalBioFilter(%s) %s" % (case, out.describe()))
    ctx.done("ctor", case, True)


def _filter(dsw, spec, k):
    if spec["kind"] == "asym":
        f = asym_filter(dsw, k, spec["cfg"], spec["banned"])
        return f, None
    if spec["kind"] == "local":
        c = spec["cfg"]
        return dsw.LocalBioFilter(observed_length=k, max_homopolymer_runs=c["run"], gc_range=c["gc"], undesired_motifs=c["motifs"]), None
    f, pred = make_user_filter(dsw, spec["spec"], k, [])
    return f, pred


def check_pipeline(ctx, case):
    dsw = import_dsw()
    k, t, spec = case["k"], case["t"], case["filter"]
    rng = random.Random(derive_seed(ctx.seed, jdump(case)))
    try:
        f, pred = _filter(dsw, spec, k)
    except ValueError:
        return
    fv = monitored(dsw.find_vertices, 400 * 4 ** k + 5000, k, f)
    if fv.kind != "ok":
        ctx.cls("pipeline|find_vertices " + ("ValueError" if isinstance(fv.exc, ValueError) else fv.kind))
        if not (fv.kind == "raised" and isinstance(fv.exc, ValueError)):
            ctx.fail("find_vertices-" + fv.kind, "find_vertices(k=%d, %s) %s" % (k, spec, fv.describe()))
        return
    mask = fv.value
    gen = monitored(dsw.connect_coding_graph, 400 * 4 ** k * (4 ** k + 8) + 20000, k, mask, t)
    if gen.kind != "ok":
        ctx.cls("pipeline|generation " + ("ValueError" if gen.kind == "raised" and isinstance(gen.exc, ValueError) else gen.kind))
        return
    acc = np.asarray(gen.value[1])
    live = G.live_vertices(acc)
    if not live:
        return
    excluded = int(np.asarray(mask).astype(bool).sum()) < 4 ** k
    no3 = not bool((G.out_degrees(acc) == 3).any())
    starts = live if k <= 2 else rng.sample(live, min(len(live), 4))
    if case.get("long"):
        starts = starts[:2]
        if (spec["kind"] != "local") or ((spec["cfg"]["run"] is None or spec["cfg"]["run"] < k) and all(len(m) <= k for m in (spec["cfg"]["motifs"] or []))):
            # every walk of the generated graph is the strand of some message: long walks from every retained vertex, judged by the
            # whole-sequence check together with their start k-mer (each window of it is a retained vertex)
            for v in (live if len(live) <= 128 else rng.sample(live, 128)):
                wlk = G.random_walk(acc, v, 1150, rng)
                if len(wlk) >= 1000:
                    verdict = monitored(f.valid, 10 ** 7, G.kmer(v, k) + wlk, False)
                    if verdict.kind != "ok" or not verdict.value:
                        ctx.fail("whole-sequence-check-fails", "a walk of %d nt of the generated graph, prefixed with its start k-mer %s, is judged %s by the filter's whole-sequence check; k=%d t=%d filter=%s" % (
                            len(wlk), G.kmer(v, k), verdict.describe(), k, t, spec))
                        break
                    ctx.cls("long walk from a retained vertex judged by the whole-sequence check")
    for start in starts:
        for _ in range(case["n_msgs"]):
            bits, mclass = gens.message(rng, 80) if not case.get("long") else gens.message(rng, 8, "long")
            fast = no3 and rng.random() < 0.35
            tspec = rand_table_spec(rng, 0.5)
            _one(ctx, dsw, case, f, spec, acc, k, t, int(start), bits, fast, tspec, excluded)


def _one(ctx, dsw, case, f, spec, acc, k, t, start, bits, fast, tspec, excluded):
    sub = dict(k=k, t=t, filter=spec, arcs=G.acc_to_hex(acc), start=start, bits=bits, fast=fast, table=tspec)
    shuf = table_of(tspec, k)
    out = monitored(dsw.encode, encode_budget(len(bits), int((G.out_degrees(acc) > 0).sum())), np.array(bits, dtype=int), acc, start,
                    is_faster=fast, shuffles=shuf)
    where = "k=%d t=%d filter=%s start=%s bits=%s mode=%s table=%s" % (k, t, spec, G.kmer(start, k), bits, "fast" if fast else "normal", tspec)
    if out.kind != "ok" or not is_strand(out.value):
        ctx.fail("encode-" + out.kind, "encode %s; %s" % (out.describe(), where), "strand", sub)
        ctx.done("strand", sub, False)
        return
    strand = out.value
    full = G.kmer(start, k) + strand
    local = spec["kind"] in ("local",)
    asym = spec["kind"] == "asym"
    for i in range(len(full) - k + 1):
        w = full[i:i + k]
        ok = bool(f.valid(w))
        if not ok:
            ctx.fail("window-rejected-by-filter", "window %r at offset %d of %s + %s is rejected by the filter; %s" % (w, i, G.kmer(start, k), strand, where), "strand", sub)
            break
        if local and not ref_valid(dict(spec["cfg"], k=k, gc=None if spec["cfg"]["gc"] is None else [str(x) for x in spec["cfg"]["gc"]]), w, False)[0]:
            ctx.fail("window-rejected-by-independent-predicate", "window %r at offset %d of %s + %s violates the configured rules; %s" % (w, i, G.kmer(start, k), strand, where), "strand", sub)
            break
    ctx.evaluations += max(len(full) - k, 0)
    if local:
        c = spec["cfg"]
        decidable = (c["run"] is None or c["run"] < k) and all(len(m) <= k for m in (c["motifs"] or []))
        if decidable:
            for name, s in (("strand", strand), ("start k-mer + strand", full)):
                if not bool(f.valid(s, only_last=False)):
                    ctx.fail("whole-sequence-check-fails", "f.valid(%s = %r, only_last=False) is False; %s" % (name, s, where), "strand", sub)
            ctx.cls("whole-sequence|checked")
        else:
            ctx.cls("whole-sequence|not window-decidable (not demanded)")
    elif not asym and spec["spec"]["pred"] == "doc-gc" and spec["spec"]["w"] <= k:
        for name, s in (("strand", strand), ("start k-mer + strand", full)):
            if not bool(f.valid(s)):
                ctx.fail("whole-sequence-check-fails", "documented GC filter: valid(%s = %r) is False; %s" % (name, s, where), "strand", sub)
        ctx.cls("whole-sequence|checked")
    if asym:
        c = spec["cfg"]
        if (c["run"] is None or c["run"] < k) and all(len(w) <= k for w in spec["banned"]):
            for name, s in (("strand", strand), ("start k-mer + strand", full)):
                if not bool(f.valid(s, only_last=False)):
                    ctx.fail("whole-sequence-check-fails", "subclassed filter: valid(%s = %r, only_last=False) is False; %s" % (name, s, where), "strand", sub)
            ctx.cls("whole-sequence|checked")
    ctx.cls("filter|" + ("local" if local else "asym-subclass" if asym else "user:" + spec["spec"]["pred"]))
    ctx.cls("t|%d" % t)
    ctx.cls("mode|" + ("fast" if fast else "normal"))
    ctx.cls("table|" + ("on" if tspec else "off"))
    ctx.cls("k|%d" % k)
    ctx.obs("max_strand_length", len(strand))
    ctx.done("strand", sub, excluded and len(strand) >= k)


def check_filter_sequence(ctx, case):
    """G2: the same filter object is tightened in place between two runs of find_vertices -> connect_coding_graph ->
    encode; the strands of the second run must satisfy the filter as it is *then*."""
    dsw = import_dsw()
    k, t = case["k"], case["t"]
    rng = random.Random(derive_seed(ctx.seed, jdump(case)))
    f = dsw.LocalBioFilter(observed_length=k, max_homopolymer_runs=case["run0"], gc_range=case["gc"], undesired_motifs=[])
    cfg = dict(k=k, run=case["run0"], gc=None if case["gc"] is None else [str(x) for x in case["gc"]], motifs=[])   # the settings as they are
    for stage in range(3):
        try:
            mask = dsw.find_vertices(k, f)
            acc = np.asarray(dsw.connect_coding_graph(k, mask, t)[1])
        except ValueError:
            acc = None
        if acc is not None and (acc >= 0).any():
            live = G.live_vertices(acc)
            for start in rng.sample(live, min(len(live), 3)):
                bits = gens.message(rng, 60)[0]
                out = monitored(dsw.encode, encode_budget(len(bits), len(live)), np.array(bits, dtype=int), acc, int(start))
                if out.kind == "ok" and is_strand(out.value):
                    full = G.kmer(int(start), k) + out.value
                    for i in range(len(full) - k + 1):
                        # judged by the independent predicate for the *current* settings (the object itself may answer from a cache)
                        if not ref_valid(cfg, full[i:i + k], False)[0] or not bool(f.valid(full[i:i + k])):
                            ctx.fail("window-rejected-by-filter", "stage %d (filter object edited in place: run limit %s, motifs %s): window %r of %s violates the settings as they are now" % (
                                stage, f.max_homopolymer_runs, f.undesired_motifs, full[i:i + k], full), "filter_sequence", case)
                            return
                    ctx.evaluations += 1
        if stage == 0:
            f.max_homopolymer_runs = case["run1"]
            cfg["run"] = case["run1"]
        elif stage == 1:
            f.undesired_motifs.append(case["motif"])
            cfg["motifs"] = cfg["motifs"] + [case["motif"]]
    ctx.cls("pipeline re-run after the filter object was edited")
    ctx.done("filter_sequence", case, True)


def check_strand(ctx, case):
    """Replay entry for one (graph, start, message) sub-case."""
    dsw = import_dsw()
    f, _ = _filter(dsw, case["filter"], case["k"])
    acc = gens.acc_of(case)
    _one(ctx, dsw, case, f, case["filter"], acc, case["k"], case["t"], case["start"], case["bits"], case["fast"], case["table"], True)


CHECKS = {"ctor": check_ctor, "pipeline": check_pipeline, "strand": check_strand, "filter_sequence": check_filter_sequence}


def floors(agg, tier):
    out = []
    if agg["classes"].get("long walk from a retained vertex judged by the whole-sequence check", 0) < 100:
        out.append("long walks judged by the whole-sequence check: %d < 100" % agg["classes"].get("long walk from a retained vertex judged by the whole-sequence check", 0))
    c = agg["classes"]
    for name, need in (("ctor|accepted", 100), ("ctor|rejected", 100), ("filter|local", 1000), ("filter|user:forbidden", 100),
                       ("filter|user:doc-gc", 100), ("whole-sequence|checked", 1000), ("mode|fast", 200), ("table|on", 500),
                       ("t|1", 200), ("t|2", 200), ("t|3", 30),
                       ("filter|asym-subclass", 100), ("pipeline re-run after the filter object was edited", 100)):
        if c.get(name, 0) < need:
            out.append("%s observed %d < %d" % (name, c.get(name, 0), need))
    return out
