"""C03 - the coding graph is the largest closed sub-graph, or a ValueError (DESIGN.md section 4, C03)."""
import numpy as np

from vlib import alias, clock, graphs as G, gens
from vlib.base import import_dsw
from vlib.coding import monitored, ArgGuard
from vlib.proxies import frozen

ID = "C03"
LEVEL = "exploration"
TECHNIQUE = ("runtime monitoring of the real connect_coding_graph / latter_map_to_accessor(threshold) against an independent "
             "greatest-fixed-point + backward-reachability oracle; exhaustive over all 65 536 order-2 masks x 4 thresholds; "
             "loop clock on the generator's while-loops, read-only trap and digests on the mask")
LEVEL_TEXT = ("Exhaustive for k = 2 (every mask x t = 1..4 x dtype bool / int64); "
              "sampled for k = 1, 3, 4 and a few graphs of order 5 and 6 per shard incl. masks built around information-free cycles. The oracle is exact "
              "(the union of closed sets is closed), so equality is demanded.")
LEVEL_NOTE = "Trusts the 25-line fixed-point oracle in vlib/graphs.py (Python sets)."
PLAN = {"quick": dict(shards=16, budget=130), "thorough": dict(shards=16, budget=600)}
EXHAUSTIVE = ["k=2: all 65536 masks x t=1..4"]
RULE = ("connect_coding_graph(k, mask, t) for every order-2 mask x t in 1..4, random masks of density 0.2..0.98 for k = 1,3,4(,5), "
        "masks from LocalBioFilter settings, and masks seeded with an information-free cycle of length 1..6 plus a chain "
        "feeding it. Verdict: returned accessor == oracle accessor; vertex description (0/1 mask or index array) denotes "
        "exactly the rows with arcs; ValueError iff the oracle graph is empty, no other exception; mask unchanged (digest + "
        "read-only trap); a sub-mask never yields more arcs; for t >= 2 latter_map_to_accessor(accessor_to_latter_map("
        "connect_valid_graph(mask)), k, threshold=t) is the same graph (all -1 when empty). Non-trivial: trimming removed "
        "at least one vertex or the call raised; distinct = hash of (k, mask, t, dtype)."
        ' Also: masks found by hill climbing that need up to 13 pruning sweeps (props/corpus_deep_masks.json), induced cycles of 3^(k-1) out-degree-1 vertices (k = 5..8) next to a small branching core, closed graphs of k+1 vertices at the orders 7..10, and one latter-map object trimmed at thresholds 4, 3, 2 in turn with a digest of the map before and after; thresholds passed as numpy integers (connect_coding_graph and latter_map_to_accessor) and a verbose=True twin of the generation call; thin masks found by an oracle-side simulation of the clean-up in which one vertex loses two successors in the same withdrawal step.')


def setup(ctx):
    import_dsw()
    clock.install(lines=False)


def _cycle_mask(rng, k):
    """Mask containing an information-free cycle (length 1..6), a chain into it, and random further vertices."""
    n = 4 ** k
    p = rng.randint(1, 6)
    seq = [rng.randrange(4) for _ in range(p)]
    cyc = set()
    for i in range(p):
        v = 0
        for j in range(k):
            v = v * 4 + seq[(i + j) % p]
        cyc.add(v)
    mask = [0] * n
    for v in cyc:
        mask[v] = 1
    v = rng.choice(sorted(cyc))
    for _ in range(rng.randint(0, 4)):  # chain feeding the cycle
        v = rng.choice(G.preds(v, k))
        mask[v] = 1
    dens = rng.choice([0.0, 0.05, 0.15, 0.3])
    for i in range(n):
        if rng.random() < dens:
            mask[i] = 1
    return mask


def _debruijn(alphabet, n):
    """de Bruijn sequence B(|alphabet|, n) (Lyndon-word construction), as a list of symbols."""
    kk = len(alphabet)
    a = [0] * (kk * n)
    seq = []

    def db(t, p):
        if t > n:
            if n % p == 0:
                seq.extend(a[1:p + 1])
        else:
            a[t] = a[t - p]
            db(t + 1, p)
            for j in range(a[t - p] + 1, kk):
                a[t] = j
                db(t + 1, t)
    db(1, 1)
    return [alphabet[i] for i in seq]


def _long_cycle_mask(rng, k):
    """An induced cycle of 3^(k-1) out-degree-1 vertices (the k-mers along a ternary de Bruijn sequence of order k-1:
    every (k-1)-mer occurs once, so every vertex has exactly one successor inside) next to a small branching core."""
    n = 4 ** k
    letters = rng.sample([0, 1, 2, 3], 3) if k < 8 else [0, 1, 2]      # at order 8 the core lives on T: indices beyond 2^15
    seq = _debruijn(letters, k - 1)
    m = len(seq)
    mask = [0] * n
    for i in range(m):
        v = 0
        for j in range(k):
            v = v * 4 + seq[(i + j) % m]
        mask[v] = 1
    # branching core over the fourth letter and one more: all k-mers with at most one foreign symbol
    x = [c for c in range(4) if c not in letters][0]
    y = rng.choice(letters)
    for pos in range(-1, k):
        v = 0
        for j in range(k):
            v = v * 4 + (y if j == pos else x)
        mask[v] = 1
    return mask


def lockstep(k, S):
    """Simulate the threshold-1 clean-up (degree closure, then withdrawal of vertices that reach no branching vertex, one seed at a
    time in ascending order).  True when within one withdrawal step the same predecessor loses two arcs."""
    n=4**k
    S=set(S)
    while True:
        drop={v for v in S if not any(((v*4+j)%n) in S for j in range(4))}
        if not drop: break
        S-=drop
    if not S: return False
    succ={v:{(v*4+j)%n for j in range(4) if (v*4+j)%n in S} for v in S}
    top=n//4
    preds=lambda v:[v//4+j*top for j in range(4)]
    hit=False
    while True:
        reach={v for v in succ if len(succ[v])>1}
        fr=list(reach)
        while fr:
            x=fr.pop()
            for u in preds(x):
                if u in succ and x in succ[u] and u not in reach:
                    reach.add(u); fr.append(u)
        useless=sorted(v for v in succ if succ[v] and v not in reach)
        if not useless: return hit
        for u in useless:
            succ[u]=set()
            pairs=[(p,u) for p in preds(u)]
            while pairs:
                formers=[p for p,_ in pairs if p in succ]
                if len(formers)!=len(set(formers)):
                    # the same predecessor twice in one step: does it really lose two arcs?
                    cnt={}
                    for p,l in pairs:
                        if p in succ and l in succ[p]: cnt[p]=cnt.get(p,0)+1
                    if any(c>=2 for c in cnt.values()): hit=True
                new=[]
                for p,l in pairs:
                    if p in succ and l in succ[p]:
                        succ[p].discard(l)
                        if not succ[p]:
                            new+=[(q,p) for q in preds(p)]
                pairs=new


def wave_lockstep(k, S):
    """Same clean-up, withdrawn in waves from all useless vertices at once.  True when, in a wave after the first recount, a
    vertex loses two or more successors at once and is left without any (a per-wave counter that is decremented once per
    vertex instead of once per arc never sees it die)."""
    n = 4 ** k
    S = set(S)
    while True:
        drop = {v for v in S if not any(((v * 4 + j) % n) in S for j in range(4))}
        if not drop:
            break
        S -= drop
    if not S:
        return False
    succ = {v: {(v * 4 + j) % n for j in range(4) if (v * 4 + j) % n in S} for v in S}
    top = n // 4
    preds = lambda v: [v // 4 + j * top for j in range(4)]
    for _round in range(64):
        reach = {v for v in succ if len(succ[v]) > 1}
        fr = list(reach)
        while fr:
            x = fr.pop()
            for u in preds(x):
                if u in succ and x in succ[u] and u not in reach:
                    reach.add(u)
                    fr.append(u)
        useless = {v for v in succ if succ[v] and v not in reach}
        if not useless:
            return False
        for u in useless:
            succ[u] = set()
        for v in succ:
            succ[v] -= useless
        wave = {v for v in reach if not succ[v]}          # first wave: a full recount
        while wave:
            lost = {}
            for d in wave:
                for p in preds(d):
                    if p in succ and d in succ[p]:
                        succ[p].discard(d)
                        lost[p] = lost.get(p, 0) + 1
            if any(c >= 2 and not succ[p] for p, c in lost.items()):
                return True
            wave = {p for p in lost if not succ[p]}
    return False


def _at_most_one_mask(k, a, c):
    """All k-mers over {a, c} with at most one c: a closed graph of k+1 vertices (two of them branching) at any order."""
    mask = [0] * (4 ** k)
    for pos in range(-1, k):
        v = 0
        for j in range(k):
            v = v * 4 + (c if j == pos else a)
        mask[v] = 1
    return mask


def generate(ctx):
    rng = ctx.rng
    import json
    import os
    corpus = os.path.join(os.path.dirname(os.path.abspath(__file__)), "corpus_deep_masks.json")
    if os.path.exists(corpus):
        for i, item in enumerate(json.load(open(corpus))):     # masks found by search that need up to 13 pruning sweeps
            if ctx.mine(i):
                for dt in ("bool", "int64"):
                    yield "generate", dict(k=item["k"], mask=item["mask"], t=1, dtype=dt, fam="deep-sweeps")
    found = 0
    for _ in range(ctx.pick(40000, 200000)):
        # oracle-side search: thin masks whose clean-up withdraws two arcs of one predecessor in the same step (two dying
        # siblings), seen from one seed at a time and in waves from all useless vertices at once
        k = rng.choice([3, 3, 3, 4])
        d = rng.choice([0.15, 0.2, 0.25, 0.3])
        S = {v for v in range(4 ** k) if rng.random() < d}
        if lockstep(k, S) or wave_lockstep(k, S):
            found += 1
            m = [1 if v in S else 0 for v in range(4 ** k)]
            yield "generate", dict(k=k, mask=G.mask_to_hex(m), t=1, dtype=rng.choice(["bool", "int64"]), fam="lockstep")
            if found >= ctx.pick(40, 200):
                break
    j = 0
    for k in (5, 6, 7, 8):
        if ctx.mine(j):
            yield "generate", dict(k=k, mask=G.mask_to_hex(_long_cycle_mask(rng, k)), t=1, dtype="bool", fam="long-cycle")
        j += 1
    for k in (2, 3, 4, 5, 6, 7):
        for d in (2, 3):
            # all k-mers over a d-letter alphabet (+ a few strays that must be trimmed): exactly d^k vertices of out-degree d
            if ctx.mine(j):
                letters = rng.sample(range(4), d)
                idx = np.arange(4 ** k)
                digits = np.stack([(idx // 4 ** (k - 1 - i)) % 4 for i in range(k)], axis=1)
                member = np.isin(digits, letters).all(axis=1)
                for _x in range(rng.choice([0, 0, 2, 5])):
                    member[rng.randrange(4 ** k)] = True
                for t in range(1, d + 2):
                    yield "generate", dict(k=k, mask=G.mask_to_hex(member), t=t, dtype=rng.choice(["bool", "int64"]), fam="sub-alphabet")
            j += 1
    for k in (7, 8, 9, 10):
        if ctx.mine(j) and (k <= 9 or not ctx.quick() or ctx.shard == 0):
            a, c = rng.sample([0, 1, 2, 3], 2)
            if k == 8:
                a = 3                      # vertex indices beyond 2^15 (and 2^16 - 1 itself)
                c = rng.choice([0, 1, 2])
            yield "generate", dict(k=k, mask=G.mask_to_hex(_at_most_one_mask(k, a, c)), t=rng.choice([1, 1, 2]), dtype=rng.choice(["bool", "int64"]), fam="tiny-at-large-order")
        j += 1
    if ctx.shard == 1 or (not ctx.quick() and ctx.shard in (2, 3)):
        # a dense mask at order 9 in which one round of trimming removes exactly one vertex out of 262 144
        k9 = 9 if ctx.shard != 3 else 8
        n9 = 4 ** k9
        v = rng.randrange(n9)
        t9 = rng.choice([2, 3])
        excluded = {(v * 4 + j) % n9 for j in rng.sample(range(4), 4 - (t9 - 1))}          # v keeps t-1 successors ...
        excluded |= {v % (n9 // 4) + j * (n9 // 4) for j in range(4)} - {v}                 # ... and is the only vertex that does
        bits = (1 << n9) - 1
        for d in excluded:
            bits &= ~(1 << d)
        yield "generate", dict(k=k9, mask="%x" % bits, t=t9, dtype=rng.choice(["bool", "int64"]), fam="near-full-large-order")
    both = True
    for m in range(65536):
        if not ctx.mine(m):
            continue
        for t in (1, 2, 3, 4):
            if both:
                yield "generate", dict(k=2, mask="%x" % m, t=t, dtype="bool", fam="exhaustive")
                yield "generate", dict(k=2, mask="%x" % m, t=t, dtype="int64", fam="exhaustive")
            else:
                yield "generate", dict(k=2, mask="%x" % m, t=t, dtype="bool" if (m + t) % 2 else "int64", fam="exhaustive")
    ctx.exhausted[EXHAUSTIVE[0]] = True
    ks = ctx.pick([1, 3, 3, 4], [1, 3, 3, 4, 4, 5])
    n_big = ctx.pick(2, 12)   # a few graphs of the orders 5 and 6 in every shard
    for it in range(ctx.pick(300, 3000)):
        k = rng.choice(ks) if it >= n_big else rng.choice([5, 6])
        fam = rng.choice(["random", "random", "cycle", "cycle", "filter", "nearfull"])
        if fam == "random":
            mask = gens.rand_mask(rng, k, rng.choice([0.2, 0.4, 0.6, 0.75, 0.9, 0.98]))
        elif fam == "cycle":
            mask = _cycle_mask(rng, k)
        elif fam == "nearfull":
            mask = [1] * (4 ** k)
            for _ in range(rng.choice([0, 0, 1, 2, 3])):
                mask[rng.randrange(4 ** k)] = 0
        else:
            mask = _filter_mask(rng, k)
        if not any(mask):
            continue
        yield "generate", dict(k=k, mask=G.mask_to_hex(mask), t=rng.choice([1, 1, 2, 3, 4]),
                               dtype=rng.choice(["bool", "int64", "int32", "uint8"]), fam=fam)


def _filter_mask(rng, k):
    """k-mer mask of a LocalBioFilter-like rule computed by the harness itself (no dsw code)."""
    run = rng.choice([None, 1, 2, 3])
    lo, hi = rng.choice([(0.0, 1.0), (0.25, 0.75), (0.5, 0.5), (0.0, 0.5), (0.4, 0.6)])
    mask = []
    for v in range(4 ** k):
        s = G.kmer(v, k)
        ok = True
        if run is not None and any(c * (run + 1) in s for c in "ACGT"):
            ok = False
        gc = s.count("C") + s.count("G")
        if gc > hi * k or gc < lo * k:
            ok = False
        mask.append(1 if ok else 0)
    return mask


def _describe_vertices(vs, n):
    """Vertex description -> set, accepting a 0/1 (or bool) mask of length 4^k or an index array."""
    a = np.asarray(vs)
    if a.ndim != 1:
        return None
    if a.dtype == bool or (len(a) == n and set(a.tolist()) <= {0, 1}):
        if len(a) != n:
            return None
        return {i for i, x in enumerate(a.tolist()) if x}
    vals = a.tolist()
    if len(set(vals)) != len(vals) or any((not float(x).is_integer()) or x < 0 or x >= n for x in vals):
        return None
    return {int(x) for x in vals}


def _call(ctx, dsw, k, mask_arr, t):
    n = 4 ** k
    budget = 400 * n * (min(n, 4096) + 8) + 20000
    out = monitored(dsw.connect_coding_graph, budget, k, mask_arr, t)
    ctx.obs("generation_steps_over_budget", out.steps / budget)
    return out


def check_generate(ctx, case):
    dsw = import_dsw()
    k, t = case["k"], case["t"]
    n = 4 ** k
    mask = G.hex_to_mask(k, case["mask"], dtype=case["dtype"])
    S0 = {i for i in range(n) if mask[i]}
    S, rounds = G.closed_subgraph(k, S0, t)
    want = G.induced(k, S)
    fm = frozen(mask)
    guard = ArgGuard(vertices=fm)
    if ctx.rng.random() < (0.03 if case["fam"] == "exhaustive" else 0.4) and k <= 6:
        # G3 noise: a caller asks for predecessor / successor lists and edits what it was handed, before the checked call
        for v in (range(n) if n <= 64 else [ctx.rng.randrange(n) for _ in range(8)]):
            alias.caller_edit(dsw.obtain_formers(v, k), ctx.rng)
            alias.caller_edit(dsw.obtain_latters(v, k), ctx.rng)
            alias.caller_edit(dsw.obtain_formers(current=v, observed_length=k), ctx.rng)
            alias.caller_edit(dsw.obtain_latters(current=v, observed_length=k), ctx.rng)
        ctx.cls("preceded by edited predecessor/successor lists")
    out = _call(ctx, dsw, k, fm, t)
    if out.kind == "ok" and ctx.rng.random() < (0.02 if case["fam"] == "exhaustive" else 0.3):
        # G1: the caller edits the returned graph in place (as remove_nasty_arc does); the same request must not change
        checked, same, second = alias.repeat_after_scramble(dsw.connect_coding_graph, (k, fm, t), {}, out.value)
        if checked:
            ctx.cls("repeated after the returned graph was scrambled")
            out = _call(ctx, dsw, k, fm, t)
    if ctx.rng.random() < (0.04 if case["fam"] == "exhaustive" else 0.3) and n <= 4096:
        # the same request with the threshold as a numpy integer (thresholds swept with numpy.arange), and with progress output
        import contextlib
        import io
        budget = 400 * n * (min(n, 4096) + 8) + 20000
        typ = ctx.rng.choice([np.int64, np.int32, np.uint8])
        alt = monitored(dsw.connect_coding_graph, budget, k, fm, typ(t))
        if not _same_outcome(out, alt):
            ctx.fail("threshold-type-changes-result", "connect_coding_graph(k=%d, mask=%s, threshold=%s(%d)) %s, with the plain int %s" % (
                k, case["mask"], typ.__name__, t, alt.describe(), out.describe()))
        with contextlib.redirect_stdout(io.StringIO()):
            loud = monitored(dsw.connect_coding_graph, 3 * budget, k, fm, t, verbose=True)
        if not _same_outcome(out, loud) and "budget" not in (out.kind, loud.kind):
            ctx.fail("progress-output-changes-result", "connect_coding_graph(k=%d, mask=%s, t=%d, verbose=True) %s, without progress output %s" % (
                k, case["mask"], t, loud.describe(), out.describe()))
        ctx.cls("threshold as a numpy integer / progress output twin")
    nontrivial = (len(S) < len(S0)) or not S
    tag = "t%d|%s" % (t, "empty" if not S else "nonempty")
    if out.kind == "budget":
        ctx.fail("generation-no-return", "connect_coding_graph(k=%d, mask=%s, t=%d) %s" % (k, case["mask"], t, out.describe()))
    elif out.kind == "raised":
        if isinstance(out.exc, ValueError) and "read-only" in str(out.exc):
            ctx.fail("mask-written-in-place", "connect_coding_graph wrote into its mask argument: %s" % out.exc)
        elif not isinstance(out.exc, ValueError):
            ctx.fail("wrong-exception:" + type(out.exc).__name__, "connect_coding_graph(k=%d, mask=%s, t=%d) %s; oracle graph has %d vertices" % (
                k, case["mask"], t, out.describe(), len(S)))
        elif S:
            ctx.fail("valueerror-but-graph-exists", "ValueError although the largest closed sub-graph has %d vertices (k=%d mask=%s t=%d)" % (
                len(S), k, case["mask"], t))
    else:
        try:
            vs, acc = out.value
            acc = np.asarray(acc)
            shape_ok = acc.shape == (n, 4)
        except Exception:
            shape_ok = False
        if not shape_ok:
            ctx.fail("result-shape", "connect_coding_graph returned %r" % (out.value,))
        elif not S:
            ctx.fail("returned-but-empty", "a graph with %d arcs was returned although no closed sub-graph exists (k=%d mask=%s t=%d)" % (
                int((acc >= 0).sum()), k, case["mask"], t))
        else:
            if not np.array_equal(acc, want):
                extra = int(((acc >= 0) & (want < 0)).sum())
                missing = int(((acc < 0) & (want >= 0)).sum())
                ctx.fail("wrong-graph", "k=%d mask=%s t=%d: %d arcs too many, %d arcs missing, %d other differences" % (
                    k, case["mask"], t, extra, missing, int((acc != want).sum()) - extra - missing))
            got = _describe_vertices(vs, n)
            have_arcs = {v for v in range(n) if (acc[v] >= 0).any()}
            if got is None or got != have_arcs:
                ctx.fail("vertex-description", "vertex description %r does not denote the rows with arcs %s" % (
                    np.asarray(vs).tolist(), sorted(have_arcs)))
    ch = guard.changed()
    if ch:
        ctx.fail("argument-modified", "changed: %s" % ch)
    ctx.cls(tag)
    if case["fam"] in ("lockstep", "long-cycle", "tiny-at-large-order", "deep-sweeps", "near-full-large-order", "sub-alphabet"):
        ctx.cls("family|" + case["fam"])
        ctx.obs("largest order generated", k)
    ctx.cls("rounds|%d" % min(rounds, 6))
    ctx.cls("dtype|" + case["dtype"])
    if t == 1 and S0:
        Sdeg, _ = _degree_only(k, S0)
        if Sdeg != S:
            ctx.cls("t1|information-free structure removed")
    # latter-map route, t >= 2
    if t >= 2 and S0 and n <= 4096:     # remove_useless is quadratic in the number of vertices: orders <= 6 only
        shuffled = ctx.rng.random() < 0.3
        t_passed = ctx.rng.choice([t, t, np.int64(t), np.int32(t), np.uint8(t)])     # thresholds often come out of numpy.arange
        if not isinstance(t_passed, int):
            ctx.cls("latter-map-route|threshold as a numpy integer")
        lm_out = monitored(_latter_route, 400 * n * (n + 8) + 20000, dsw, k, frozen(mask), t_passed, ctx.rng if shuffled else None)
        if shuffled:
            ctx.cls("latter-map-route|map written in arbitrary order")
        if lm_out.kind != "ok":
            ctx.fail("latter-map-route-" + lm_out.kind, "latter_map_to_accessor(..., threshold=%d) %s (k=%d mask=%s)" % (t, lm_out.describe(), k, case["mask"]))
        elif not np.array_equal(np.asarray(lm_out.value), want):
            ctx.fail("latter-map-route-differs", "threshold=%d trimming of the latter map differs from the closed sub-graph in %d entries (k=%d mask=%s)" % (
                t, int((np.asarray(lm_out.value) != want).sum()), k, case["mask"]))
        ctx.cls("latter-map-route|checked")
        if case["fam"] != "exhaustive" or (int(case["mask"], 16) % 7 == 0):
            seq = monitored(_latter_sequence, 4 * (400 * n * (n + 8) + 20000), dsw, k, frozen(mask))
            if seq.kind == "ok":
                changed, results = seq.value
                if changed:
                    ctx.fail("latter-map-argument-modified", "latter_map_to_accessor(..., threshold) changed the latter map it was given (k=%d mask=%s)" % (k, case["mask"]))
                for tt, res in results:
                    S2, _r = G.closed_subgraph(k, S0, tt)
                    if not np.array_equal(np.asarray(res), G.induced(k, S2)):
                        ctx.fail("latter-map-route-differs", "the same latter-map object trimmed at thresholds 4, 3, 2 in turn: threshold %d differs from the closed sub-graph (k=%d mask=%s)" % (
                            tt, k, case["mask"]))
                        break
                ctx.cls("latter-map-route|one map object trimmed at 4, 3, 2 in turn")
    # monotonicity on a sub-mask
    if S and (case["fam"] != "exhaustive" or ctx.rng.random() < 0.05):
        sub = mask.copy()
        for i in ctx.rng.sample(sorted(S0), max(1, len(S0) // 5)):
            sub[i] = 0
        o2 = _call(ctx, dsw, k, frozen(sub), t)
        if o2.kind == "ok" and out.kind == "ok":
            a1, a2 = np.asarray(out.value[1]), np.asarray(o2.value[1])
            if ((a2 >= 0) & (a1 < 0)).any():
                ctx.fail("not-monotone", "a smaller mask produced arcs the larger mask did not (k=%d mask=%s t=%d)" % (k, case["mask"], t))
        ctx.cls("monotonicity|checked")
    ctx.done("generate", case, nontrivial)


def _degree_only(k, S0):
    S = set(S0)
    n = 4 ** k
    r = 0
    while True:
        drop = {v for v in S if not any((v * 4 + j) % n in S for j in range(4))}
        if not drop:
            return S, r
        S -= drop
        r += 1


def _latter_sequence(dsw, k, mask):
    from vlib import guards
    valid = dsw.connect_valid_graph(k, mask)
    lm = dsw.accessor_to_latter_map(valid)
    d0 = guards.digest(lm)
    out = []
    for t in (4, 3, 2):
        out.append((t, dsw.latter_map_to_accessor(lm, k, threshold=t)))
    return guards.digest(lm) != d0, out


def _latter_route(dsw, k, mask, t, rng=None):
    valid = dsw.connect_valid_graph(k, mask)
    lm = dsw.accessor_to_latter_map(valid)
    if rng is not None:          # the same map written down in another order (keys and follower lists)
        keys = list(lm)
        rng.shuffle(keys)
        hand = {}
        for a in keys:
            row = [int(x) for x in lm[a]]
            rng.shuffle(row)
            hand[int(a)] = row
        lm = hand
    return dsw.latter_map_to_accessor(lm, k, threshold=t)


def _same_outcome(a, b):
    if a.kind != b.kind:
        return False
    if a.kind == "raised":
        return type(a.exc) is type(b.exc)
    if a.kind != "ok":
        return True
    try:
        return np.array_equal(np.asarray(a.value[0]), np.asarray(b.value[0])) and np.array_equal(np.asarray(a.value[1]), np.asarray(b.value[1]))
    except Exception:
        return False


CHECKS = {"generate": check_generate}


def floors(agg, tier):
    out = []
    c = agg["classes"]
    for t in (1, 2, 3, 4):
        for e in ("empty", "nonempty"):
            need = 500 if (t, e) not in ((3, "nonempty"), (4, "nonempty")) else (100 if t == 3 else 2)
            if c.get("t%d|%s" % (t, e), 0) < need:
                out.append("t%d|%s observed %d < %d" % (t, e, c.get("t%d|%s" % (t, e), 0), need))
    for name, need in (("t1|information-free structure removed", 500), ("latter-map-route|checked", 1000), ("latter-map-route|threshold as a numpy integer", 10000),
                       ("threshold as a numpy integer / progress output twin", 3000),
                       ("monotonicity|checked", 500), ("rounds|3", 50),
                       ("latter-map-route|one map object trimmed at 4, 3, 2 in turn", 500), ("family|long-cycle", 4), ("family|lockstep", 150),
                       ("family|tiny-at-large-order", 3), ("family|deep-sweeps", 10), ("family|near-full-large-order", 1), ("family|sub-alphabet", 30),
                       ("latter-map-route|map written in arbitrary order", 500), ("repeated after the returned graph was scrambled", 300),
                       ("preceded by edited predecessor/successor lists", 300)):
        if c.get(name, 0) < need:
            out.append("%s observed %d < %d" % (name, c.get(name, 0), need))
    return out
