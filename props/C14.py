"""C14 - the three graph representations are interchangeable (DESIGN.md section 4, C14)."""
from collections import Counter

import numpy as np

from vlib import alias, clock, graphs as G, gens
from vlib.base import import_dsw
from vlib.coding import monitored, ArgGuard
from vlib.proxies import frozen

ID = "C14"
LEVEL = "exploration"
TECHNIQUE = ("runtime monitoring of the real converters (accessor <-> latter map <-> adjacency matrix), vertex listing and leaf "
             "queries on arbitrary arc subsets, compared with plain-loop reconstructions; every sampled illegal single-arc matrix "
             "must raise ValueError; arguments are passed read-only and digested")
LEVEL_TEXT = ("Held on every arc subset of this run (k = 1..5, 6 in the thorough tier; densities 0..1 incl. empty and complete; not "
              "only vertex-induced graphs) and on every sampled illegal matrix. Sampled, with a floor on graphs having a vertex of "
              "out-degree strictly between 0 and 4.")
LEVEL_NOTE = "Trusts the plain-loop reconstructions in this module and numpy array_equal."
PLAN = {"quick": dict(shards=16, budget=100), "thorough": dict(shards=16, budget=300)}
RULE = ("Random arc subsets (independent arcs, density 0, 0.1..0.9, 1) of the order-k de Bruijn graph: latter map == {v: live "
        "successors} for exactly the vertices with arcs; latter_map_to_accessor and adjacency_matrix_to_accessor invert the "
        "conversions; the matrix has a 1 exactly at the arcs; obtain_vertices == rows with arcs; obtain_leaf_vertices(v, d) for "
        "d = 0..k+1 from live and dead roots gives the multiset of end points of all d-step walks from both representations; "
        "matrix + one arc that is not a shift (sampled (u, v)) -> ValueError exactly. Non-trivial: some vertex has out-degree "
        "strictly between 0 and 4; distinct = hash of (k, arcs)."
        ' Also: hand-built latter maps with keys and follower lists in arbitrary order, re-wired matrices (one legal arc replaced by a non-shift arc, same number of ones), an earlier matrix re-read after a later conversion of the same order, and leaf queries repeated after an arc was removed in place from the same accessor / map objects.')


def setup(ctx):
    import_dsw()
    clock.install(lines=False)


def generate(ctx):
    rng = ctx.rng
    if ctx.shard in ctx.pick((0,), (0, 1, 2)):
        yield "huge_level", dict(k=1, depth=12 if ctx.quick() else 13, drop=rng.randrange(16))
    if ctx.shard in ctx.pick((1, 2), (1, 2, 3, 4)):
        # a single walk followed for thousands of steps (self-loop, 2-cycle, a longer cycle of out-degree-1 vertices)
        yield "deep_chain", dict(cycle=rng.choice(["A", "AC", "ACG", "AACT"]), depth=rng.choice([990, 1200, 3000, 10000]))
    for _ in range(ctx.pick(250, 2500)):
        # thin graphs, every root, depths far beyond the order: walks that end up circulating on cycles of out-degree-1
        # vertices, where consecutive breadth-first levels hold the same vertices with different multiplicities
        k = rng.choice([2, 2, 3])
        n = 4 ** k
        dens = rng.choice([0.2, 0.25, 0.3, 0.35])
        acc = -np.ones((n, 4), dtype=int)
        for v in range(n):
            for j in range(4):
                if rng.random() < dens:
                    acc[v, j] = (v * 4 + j) % n
        if (acc >= 0).any():
            yield "deep_leaves", dict(k=k, arcs=G.acc_to_hex(acc), dens=dens)
    ks = ctx.pick([1, 2, 2, 3, 3, 4, 5], [1, 2, 3, 3, 4, 4, 5, 5])
    for _ in range(ctx.pick(500, 4000)):
        k = rng.choice(ks)
        n = 4 ** k
        dens = rng.choice([0.0, 0.1, 0.3, 0.5, 0.7, 0.9, 1.0, rng.random()])
        acc = -np.ones((n, 4), dtype=int)
        for v in range(n):
            for j in range(4):
                if rng.random() < dens:
                    acc[v, j] = (v * 4 + j) % n
        yield "graph", dict(k=k, arcs=G.acc_to_hex(acc), dens=round(dens, 3))
    if not ctx.quick() and ctx.shard < 4:
        k, n = 6, 4 ** 6
        acc = -np.ones((n, 4), dtype=int)
        for v in range(n):
            for j in range(4):
                if rng.random() < 0.6:
                    acc[v, j] = (v * 4 + j) % n
        yield "graph", dict(k=k, arcs=G.acc_to_hex(acc), dens=0.6)


def _lm_norm(lm):
    return {int(k): sorted(int(x) for x in v) for k, v in lm.items()}


def check_graph(ctx, case):
    dsw = import_dsw()
    rng = ctx.rng
    k = case["k"]
    n = 4 ** k
    acc = gens.acc_of(case)
    want_lm = {v: sorted(int(w) for w in acc[v] if w >= 0) for v in range(n) if (acc[v] >= 0).any()}
    facc = frozen(acc)
    guard = ArgGuard(accessor=facc)
    where = "k=%d arcs=%s" % (k, case["arcs"] if k <= 3 else case["arcs"][:40] + "...")
    big = 400 * n * 4 + 100000

    lm = None
    mat_ok = None
    out = monitored(dsw.accessor_to_latter_map, big, facc)
    if out.kind != "ok" or not isinstance(out.value, dict):
        ctx.fail("to-latter-map-" + out.kind, "accessor_to_latter_map %s; %s" % (out.describe(), where))
    else:
        lm = out.value
        if _lm_norm(lm) != want_lm:
            ctx.fail("latter-map-content", "latter map differs: extra keys %s, missing keys %s, wrong rows %s; %s" % (
                sorted(set(_lm_norm(lm)) - set(want_lm))[:5], sorted(set(want_lm) - set(_lm_norm(lm)))[:5],
                [v for v in want_lm if v in _lm_norm(lm) and _lm_norm(lm)[v] != want_lm[v]][:5], where))
        back = monitored(dsw.latter_map_to_accessor, big, lm, k)
        if back.kind != "ok" or not np.array_equal(np.asarray(back.value), acc):
            ctx.fail("latter-map-round-trip", "latter_map_to_accessor(accessor_to_latter_map(a)) != a (%s); %s" % (back.describe() if back.kind != "ok" else "differs", where))
        # from the oracle's own map too (column must be successor mod 4, not list position)
        back2 = monitored(dsw.latter_map_to_accessor, big, {v: list(ws) for v, ws in want_lm.items()}, k)
        if back2.kind != "ok" or not np.array_equal(np.asarray(back2.value), acc):
            ctx.fail("latter-map-to-accessor", "latter_map_to_accessor(reference map) != accessor; %s" % where)
        keys = list(want_lm)
        rng.shuffle(keys)
        hand = {}
        for v in keys:
            row = list(want_lm[v])
            rng.shuffle(row)
            hand[v] = row
        back3 = monitored(dsw.latter_map_to_accessor, big, hand, k)
        if back3.kind != "ok" or not np.array_equal(np.asarray(back3.value), acc):
            ctx.fail("latter-map-to-accessor", "latter_map_to_accessor(a hand-built map with keys and successors in arbitrary order) != accessor; %s" % where)
        ctx.cls("hand-built map in arbitrary order")

    if k <= 5 or not ctx.quick():
        out = monitored(dsw.accessor_to_adjacency_matrix, big + n * 50, facc)
        if out.kind != "ok":
            ctx.fail("to-matrix-" + out.kind, "accessor_to_adjacency_matrix %s; %s" % (out.describe(), where))
        else:
            mat = np.asarray(out.value)
            want = np.zeros((n, n), dtype=int)
            for v in range(n):
                for w in acc[v]:
                    if w >= 0:
                        want[v, w] = 1
            if mat.shape != (n, n) or not np.array_equal(mat, want):
                ctx.fail("matrix-content", "adjacency matrix differs from the arc set; %s" % where)
            else:
                mat_ok = want.copy() if n <= 1024 else None
                layout = rng.choice(["C", "C", "F", "T"])
                arg = frozen(mat) if layout == "C" else np.asfortranarray(mat) if layout == "F" else np.ascontiguousarray(mat.T).T
                ctx.cls("matrix layout|" + layout)
                dt = rng.choice([None, None, None, "int8", "uint8", "bool", "float64", "int16"])
                if dt is not None:
                    arg = np.asarray(arg).astype(dt)          # the element types 0/1 matrices are stored in
                    ctx.cls("matrix element type|" + dt)
                back = monitored(dsw.adjacency_matrix_to_accessor, big * 4, arg)
                if back.kind != "ok" or not np.array_equal(np.asarray(back.value), acc):
                    ctx.fail("matrix-round-trip", "adjacency_matrix_to_accessor(accessor_to_adjacency_matrix(a)) != a (%s); %s" % (
                        back.describe() if back.kind != "ok" else "differs", where))
                elif np.asarray(back.value).dtype.kind not in "iu":
                    # "the identical accessor": an index table, usable wherever an accessor is
                    ctx.fail("matrix-round-trip", "adjacency_matrix_to_accessor returned an accessor of dtype %s for a %s matrix; %s" % (
                        np.asarray(back.value).dtype, np.asarray(arg).dtype, where))
                elif dt is not None:
                    again = monitored(dsw.accessor_to_latter_map, big, back.value)      # and it chains into the next conversion
                    if again.kind != "ok" or _lm_norm(again.value) != want_lm:
                        ctx.fail("matrix-round-trip", "the accessor converted back from a %s matrix does not convert on: %s; %s" % (dt, again.describe(), where))
                # illegal matrices: one extra arc that is not a shift
                for _ in range(ctx.pick(4, 8) if k <= 4 else 1):
                    u = rng.randrange(n)
                    legal = set(G.succs(u, k))
                    cand = [v for v in (rng.randrange(n) for _ in range(8)) if v not in legal]
                    if not cand:
                        ctx.cls("illegal-matrix|impossible (k=1: every arc is a shift)")
                        continue
                    bad = want.copy()
                    bad[u, cand[0]] = 1
                    r = monitored(dsw.adjacency_matrix_to_accessor, big * 4, bad)
                    if r.kind == "ok":
                        ctx.fail("illegal-matrix-accepted", "matrix with the non-shift arc %d->%d was converted instead of raising ValueError; %s" % (u, cand[0], where))
                    elif r.kind == "budget" or not isinstance(r.exc, ValueError):
                        ctx.fail("illegal-matrix-wrong-exception", "matrix with the non-shift arc %d->%d: %s; %s" % (u, cand[0], r.describe(), where))
                    ctx.cls("illegal-matrix|rejected")
                    ctx.evaluations += 1
                # re-wired: one legal arc replaced by a non-shift arc, so the number of ones is unchanged
                arcs = np.argwhere(want == 1)
                if len(arcs) and k >= 2:
                    for _ in range(2):
                        u, w_old = map(int, arcs[rng.randrange(len(arcs))])
                        cand = [v for v in (rng.randrange(n) for _ in range(8)) if v not in set(G.succs(u, k))]
                        if cand:
                            bad = want.copy()
                            bad[u, w_old] = 0
                            bad[u, cand[0]] = 1
                            r = monitored(dsw.adjacency_matrix_to_accessor, big * 4, bad)
                            if r.kind == "ok":
                                ctx.fail("illegal-matrix-accepted", "matrix in which the arc %d->%d was re-wired to the non-shift arc %d->%d was converted instead of raising ValueError; %s" % (u, w_old, u, cand[0], where))
                            elif r.kind == "budget" or not isinstance(r.exc, ValueError):
                                ctx.fail("illegal-matrix-wrong-exception", "re-wired matrix: %s; %s" % (r.describe(), where))
                            ctx.cls("illegal-matrix|re-wired rejected")
                # earlier results stay intact: convert a different accessor of the same order, then look at `mat` again
                other = acc.copy()
                flip = rng.sample(range(n), max(1, n // 8))
                for v in flip:
                    j = rng.randrange(4)
                    other[v, j] = -1 if other[v, j] >= 0 else (v * 4 + j) % n
                o2 = monitored(dsw.accessor_to_adjacency_matrix, big + n * 50, other)
                if o2.kind == "ok" and not np.array_equal(np.asarray(mat), want):
                    ctx.fail("earlier-result-overwritten", "the matrix returned for the first accessor changed when a second accessor of the same order was converted; %s" % where)
                ctx.cls("earlier matrix re-read after a later conversion (k=%d)" % k if k >= 5 else "earlier matrix re-read after a later conversion")
            del mat, want

    # G1: the caller edits what a converter handed back; the same conversion must not change
    if mat_ok is not None and rng.random() < 0.5:
        for fn, args in ((dsw.adjacency_matrix_to_accessor, (mat_ok,)), (dsw.accessor_to_adjacency_matrix, (acc,)),
                         (dsw.accessor_to_latter_map, (acc,)), (dsw.latter_map_to_accessor, ({v: list(ws) for v, ws in want_lm.items()}, k))):
            try:
                first = fn(*args)
            except Exception:  # noqa
                continue
            checked, same, second = alias.repeat_after_scramble(fn, args, {}, first)
            if checked and not same:
                ctx.fail("answer-changes-after-result-was-edited", "%s called again after the caller edited the first result in place gives a different answer; %s" % (fn.__name__, where))
        ctx.cls("converters repeated after their result was scrambled")
    out = monitored(dsw.obtain_vertices, big, facc)
    if out.kind != "ok" or sorted(int(x) for x in np.asarray(out.value).tolist()) != sorted(want_lm):
        ctx.fail("vertex-listing", "obtain_vertices %s, expected %s; %s" % (out.describe(), sorted(want_lm)[:20], where))

    roots = rng.sample(range(n), min(n, 5))
    for root in roots:
        for d in range(0, min(k + 2, 6)):
            level = Counter({root: 1})
            for _ in range(d):
                nxt = Counter()
                for v, c in level.items():
                    for w in acc[v]:
                        if w >= 0:
                            nxt[int(w)] += c
                level = nxt
            if sum(level.values()) > 20000:
                break
            a = monitored(dsw.obtain_leaf_vertices, big, root, d, accessor=facc)
            b = monitored(dsw.obtain_leaf_vertices, big, root, d, latter_map=lm) if lm is not None else None
            for name, r in (("accessor", a), ("latter map", b)):
                if r is None:
                    continue
                if r.kind != "ok" or Counter(int(x) for x in np.asarray(r.value).reshape(-1).tolist()) != level:
                    ctx.fail("leaf-query", "obtain_leaf_vertices(%d, depth %d, %s) %s, expected multiset %s; %s" % (
                        root, d, name, r.describe(), dict(sorted(level.items())[:8]), where))
            ctx.cls("leaf-query|%s root" % ("live" if root in want_lm else "dead"))
            ctx.evaluations += 1
    if guard.changed():
        ctx.fail("argument-modified", "the accessor argument changed: %s; %s" % (guard.changed(), where))
    # G2: the same latter-map / accessor objects edited in place (an arc removed), leaf queries repeated
    if lm is not None and want_lm:
        live_acc = np.array(acc)
        live_lm = lm        # the very object the library returned: lists shared between vertices would show below
        root = rng.choice(sorted(want_lm))
        for d in range(0, min(k + 2, 5)):
            dsw.obtain_leaf_vertices(root, d, accessor=live_acc)
            dsw.obtain_leaf_vertices(root, d, latter_map=live_lm)
        u = rng.choice(sorted(want_lm))
        w_rm = rng.choice(want_lm[u])
        live_acc[u, w_rm % 4] = -1
        key_u = [a for a in live_lm if int(a) == u][0]
        live_lm[key_u].remove(w_rm)
        if not live_lm[key_u]:
            del live_lm[key_u]
        now = {int(a): sorted(int(x) for x in b) for a, b in live_lm.items()}
        expect = {v: sorted(int(w) for w in live_acc[v] if w >= 0) for v in range(n) if (live_acc[v] >= 0).any()}
        if now != expect:
            ctx.fail("latter-map-lists-shared", "after one follower was removed from vertex %d's list of the returned latter map, other vertices changed too: %s" % (
                u, [v for v in expect if now.get(v) != expect[v]][:5]))
        for d in range(0, min(k + 2, 5)):
            level = Counter({root: 1})
            for _ in range(d):
                nxt = Counter()
                for v, c in level.items():
                    for w in live_acc[v]:
                        if w >= 0:
                            nxt[int(w)] += c
                level = nxt
            for name, r in (("accessor", monitored(dsw.obtain_leaf_vertices, big, root, d, accessor=live_acc)),
                            ("latter map", monitored(dsw.obtain_leaf_vertices, big, root, d, latter_map=live_lm))):
                if r.kind != "ok" or Counter(int(x) for x in np.asarray(r.value).reshape(-1).tolist()) != level:
                    ctx.fail("leaf-query-after-edit", "obtain_leaf_vertices(%d, depth %d, %s) after the arc %d->%d was removed in place from the same object: %s, expected %s; %s" % (
                        root, d, name, u, w_rm, r.describe(), dict(sorted(level.items())[:8]), where))
        ctx.cls("leaf queries repeated after an in-place edit")
    degs = G.out_degrees(acc)
    nontrivial = bool(((degs > 0) & (degs < 4)).any())
    ctx.cls("k|%d" % k)
    ctx.cls("density|%s" % ("empty" if not want_lm else "complete" if (degs == 4).all() else "partial"))
    ctx.done("graph", case, nontrivial)


def check_deep_leaves(ctx, case):
    dsw = import_dsw()
    k = case["k"]
    n = 4 ** k
    acc = gens.acc_of(case)
    lm = {v: [int(w) for w in acc[v] if w >= 0] for v in range(n) if (acc[v] >= 0).any()}
    roots = sorted(lm) if n <= 16 else ctx.rng.sample(sorted(lm), min(len(lm), 12))
    facc = frozen(acc)
    for root in roots:
        level = Counter({root: 1})
        prev_support = None
        for d in range(1, 15):
            nxt = Counter()
            for v, c in level.items():
                for w in acc[v]:
                    if w >= 0:
                        nxt[int(w)] += c
            level = nxt
            if not level or sum(level.values()) > 5000:
                break
            same_support = prev_support == (set(level), sum(level.values()))
            prev_support = (set(level), sum(level.values()))
            for name, kw in (("accessor", dict(accessor=facc)), ("latter map", dict(latter_map=lm))):
                r = monitored(dsw.obtain_leaf_vertices, 10 ** 7, root, d, **kw)
                if r.kind != "ok" or Counter(int(x) for x in np.asarray(r.value).reshape(-1).tolist()) != level:
                    ctx.fail("leaf-query", "obtain_leaf_vertices(%d, depth %d, %s) %s, expected multiset %s; k=%d arcs=%s" % (
                        root, d, name, r.describe(), dict(sorted(level.items())[:8]), k, case["arcs"]))
                    return ctx.done("deep_leaves", case, True)
            ctx.evaluations += 1
            if same_support:
                ctx.cls("deep leaf level with the vertices and size of the previous level")
    ctx.cls("deep leaf queries on a thin graph")
    ctx.done("deep_leaves", case, True)


def check_deep_chain(ctx, case):
    dsw = import_dsw()
    cyc, d = case["cycle"], case["depth"]
    k = max(2, len(cyc))
    text = (cyc * (k + 2))
    n = 4 ** k
    acc = -np.ones((n, 4), dtype=int)
    vs = []
    for i in range(len(cyc)):
        v = G.index_of(text[i:i + k])
        w = G.index_of(text[i + 1:i + 1 + k])
        acc[v, w % 4] = w
        vs.append(v)
    end = vs[d % len(cyc)]
    lm = {v: [int(w) for w in acc[v] if w >= 0] for v in range(n) if (acc[v] >= 0).any()}
    for name, kw in (("accessor", dict(accessor=acc)), ("latter map", dict(latter_map=lm))):
        r = monitored(dsw.obtain_leaf_vertices, 10 ** 8, vs[0], d, **kw)
        if r.kind != "ok" or [int(x) for x in np.asarray(r.value).reshape(-1).tolist()] != [end]:
            ctx.fail("leaf-query", "obtain_leaf_vertices(%d, depth %d, %s) on the cycle %s: %s, expected the single end point [%d]" % (
                vs[0], d, name, cyc, r.describe(), end))
    ctx.cls("leaf-query|one walk followed for >= 990 steps")
    ctx.done("deep_chain", case, True)


def check_huge_level(ctx, case):
    """Leaf query whose intermediate breadth-first levels exceed a million vertices (order 1, one arc removed, depth 12-13)."""
    dsw = import_dsw()
    k, d = case["k"], case["depth"]
    acc = G.complete(k)
    acc[case["drop"] // 4 % 4, case["drop"] % 4] = -1
    level = Counter({0: 1})
    for _ in range(d):
        nxt = Counter()
        for v, c in level.items():
            for w in acc[v]:
                if w >= 0:
                    nxt[int(w)] += c
        level = nxt
    lm = {v: [int(w) for w in acc[v] if w >= 0] for v in range(4)}
    for name, kw in (("accessor", dict(accessor=acc)), ("latter map", dict(latter_map=lm))):
        r = monitored(dsw.obtain_leaf_vertices, 10 ** 9, 0, d, **kw)
        if r.kind != "ok":
            ctx.fail("leaf-query", "obtain_leaf_vertices(0, depth %d, %s) on an order-1 graph %s" % (d, name, r.describe()))
            continue
        got = np.bincount(np.asarray(r.value).astype(int).reshape(-1), minlength=4)
        if got.tolist() != [level.get(v, 0) for v in range(4)]:
            ctx.fail("leaf-query", "obtain_leaf_vertices(0, depth %d, %s): multiset %s, expected %s (%d walks)" % (
                d, name, got.tolist(), [level.get(v, 0) for v in range(4)], sum(level.values())))
    ctx.obs("largest leaf level", sum(level.values()))
    ctx.cls("leaf-query|level beyond a million vertices")
    ctx.done("huge_level", case, True)


CHECKS = {"deep_chain": check_deep_chain, "graph": check_graph, "huge_level": check_huge_level, "deep_leaves": check_deep_leaves}


def floors(agg, tier):
    out = []
    c = agg["classes"]
    for name, need in (("density|partial", 500), ("density|empty", 20), ("density|complete", 20), ("illegal-matrix|rejected", 1000),
                       ("leaf-query|live root", 1000), ("leaf-query|dead root", 200), ("k|5", 20),
                       ("hand-built map in arbitrary order", 500), ("converters repeated after their result was scrambled", 300), ("matrix layout|F", 200), ("matrix layout|T", 200), ("leaf-query|level beyond a million vertices", 1), ("illegal-matrix|re-wired rejected", 500),
                       ("earlier matrix re-read after a later conversion (k=5)", 20), ("leaf queries repeated after an in-place edit", 500), ("deep leaf queries on a thin graph", 2000),
                       ("deep leaf level with the vertices and size of the previous level", 2000), ("matrix element type|int8", 100), ("leaf-query|one walk followed for >= 990 steps", 2)):
        if c.get(name, 0) < need:
            out.append("%s observed %d < %d" % (name, c.get(name, 0), need))
    return out
