"""C04 - encoding is total, dead-end free and tight on generated graphs (DESIGN.md section 4, C04)."""
import ast
import math
import random

import numpy as np

from vlib import alias, clock, graphs as G, gens, oracles
from vlib.base import import_dsw, derive_seed, jdump
from vlib.coding import monitored, encode_budget, is_strand, int_str_trap
from vlib.proxies import CountingAccessor, AccessBudgetExceeded

ID = "C04"
LEVEL = "exploration"
TECHNIQUE = ("runtime monitoring of the real encode on graphs returned by the real connect_coding_graph: array access proxy "
             "with a look-up budget of 4*L*V+8 row reads (non-termination cut) and the L*V step bound on the result, sys.monitoring loop clock, frame-local probe of the running "
             "quotient at the loop head, walk oracle and integer arithmetic on the out-degrees met")
LEVEL_TEXT = ("Held on every (generated graph, retained start, message, mode) case of this run: termination within the L*V "
              "bound measured in graph look-ups, walk-ness, and tightness. Quick samples the order-2 masks; thorough enumerates "
              "all 65 536 of them x thresholds x every retained start.")
LEVEL_NOTE = ("Graphs come from the library's own generator (the property is about what it returns); C03 checks that generator. "
              "The quotient probe reads the local variable named in the property's anchors and is evidence only.")
PLAN = {"quick": dict(shards=16, budget=100), "thorough": dict(shards=16, budget=600)}
EXHAUSTIVE = []
RULE = ("encode(m, CountingAccessor(G), v, mode) for G = connect_coding_graph(k, mask, t): order-2 masks (quick: a 1/16 sample, "
        "thorough: all 65 536) x t = 1..4 x every retained start; random / cycle-seeded / filter masks for k = 1,3,4(,5,6) "
        "with sampled starts; t = 1 graphs with long out-degree-1 chains; messages: C01 classes plus 2^n, 2^n +- 1. Verdict: "
        "row reads <= 4*L*V+8 and steps <= L*V (V = retained vertices), no exception, strand is a walk, last step at a branching vertex, "
        "normal: product of out-degrees before the last step <= value(m), len <= L on t >= 2 graphs and <= ceil(L/2) on the "
        "complete graph; fast: carried bits in {L, L+1}; quotient never increases and strictly decreases at branching "
        "vertices. Non-trivial: the graph has an out-degree-1 vertex, or t >= 2 and L >= 2; distinct = hash of the case."
        ' Also: the deep-sweep mask corpus with every retained start, one message beyond 2100 bits per few shards under the int<->str trap, and buffer-twin message pairs encoded one after the other.')

TRACE = []


def _probe(frame):
    loc = frame.f_locals
    if "quotient" in loc and "vertex_index" in loc:
        TRACE.append((loc["quotient"], int(loc["vertex_index"])))


def setup(ctx):
    import_dsw()
    import dsw.spiderweb as sw
    clock.install(lines=True)
    # first statement of the body of the first `while` of encode (the normal-mode loop), located from the AST
    node, offset = clock.func_ast(sw.encode)
    whiles = [n for n in ast.walk(node) if isinstance(n, ast.While)]
    whiles.sort(key=lambda n: n.lineno)
    if whiles:
        clock.add_probe(sw.encode, whiles[0].body[0].lineno + offset, "encode:normal-loop-head", _probe)


def finish(ctx):
    import dsw.spiderweb as sw
    import dsw.graphized as gz
    for fn in (sw.encode,):
        seen, total = clock.coverage_of(fn)
        ctx.setadd("executed-lines:" + fn.__name__, seen)
        ctx.notes["statement-lines:" + fn.__name__] = len(total)
    for k, v in clock.S.probe_hits.items():
        ctx.mon("probe-hits:" + k, v)


def _chain_mask(rng, k):
    """Mask whose t=1 graph has long out-degree-1 chains: a long simple path plus one branching region."""
    n = 4 ** k
    mask = [0] * n
    v = rng.randrange(n)
    seen = set()
    for _ in range(rng.randint(3, min(n, 40))):
        mask[v] = 1
        seen.add(v)
        nxt = [w for w in G.succs(v, k) if w not in seen]
        if not nxt:
            break
        v = rng.choice(nxt)
    # branching region: a vertex and all of its successors and their successors
    b = v
    for w in G.succs(b, k):
        mask[w] = 1
        for x in G.succs(w, k):
            mask[x] = 1
    return mask


def _long_chain_mask(rng, k):
    """A cycle of 3^(k-1) vertices with exactly one successor inside (the k-mers along a ternary de Bruijn sequence of order
    k-1) plus one chord vertex u: c -> u -> c' with c, c' on the cycle.  c branches, every vertex reaches c, so the whole
    cycle is retained at threshold 1: a chain of 3^(k-1) - 1 consecutive out-degree-1 vertices that encoding has to cross."""
    from props.C03 import _debruijn
    n = 4 ** k
    letters = rng.sample([0, 1, 2, 3], 3)
    seq = _debruijn(letters, k - 1)
    m = len(seq)
    cyc = set()
    for i in range(m):
        v = 0
        for j in range(k):
            v = v * 4 + seq[(i + j) % m]
        cyc.add(v)
    order = sorted(cyc)
    rng.shuffle(order)
    for c in order:
        for j in range(4):
            u = (c * 4 + j) % n
            if u in cyc:
                continue
            back = [x for x in G.succs(u, k) if x in cyc]
            if back:
                mask = [0] * n
                for v in cyc:
                    mask[v] = 1
                mask[u] = 1
                return mask
    return None


def generate(ctx):
    rng = ctx.rng
    dsw = import_dsw()
    if ctx.shard % 4 == 2:
        for k in ctx.pick([6], [5, 6, 7]):
            mask = _long_chain_mask(rng, k)
            if mask is not None:
                yield "graph", dict(k=k, mask=G.mask_to_hex(mask), t=1, fam="long-chain", all_starts=False, n_msgs=ctx.pick(6, 10))
    import json
    import os
    corpus = os.path.join(os.path.dirname(os.path.abspath(__file__)), "corpus_deep_masks.json")
    if os.path.exists(corpus):
        for ci, item in enumerate(json.load(open(corpus))):     # masks that need up to 13 pruning sweeps (found by search)
            if ctx.mine(ci):
                yield "graph", dict(k=item["k"], mask=item["mask"], t=1, fam="deep-sweeps", all_starts=True, n_msgs=4)
    if ctx.shard < ctx.pick(4, 32):
        yield "graph", dict(k=rng.choice([1, 2]), mask="f" * (4 if rng.random() < 0.5 else 1), t=rng.choice([1, 2]), fam="long-message", all_starts=False, n_msgs=1, long=True)
    if ctx.shard == 3 or (not ctx.quick() and ctx.shard < 3):
        yield "graph", dict(k=8, filter=dict(run=rng.choice([2, 3]), gc=rng.choice([[0.4, 0.6], [0.25, 0.75]])), t=rng.choice([1, 2]),
                            fam="order-8", all_starts=False, n_msgs=6)
    for _ in range(ctx.pick(12, 80)):
        k = rng.choice([2, 2, 3])
        yield "reused_list", dict(k=k, mask=G.mask_to_hex(gens.rand_mask(rng, k, rng.choice([0.8, 0.9, 0.95]))), seed=rng.getrandbits(32),
                                  bits=[rng.randint(0, 1) for _ in range(rng.randint(1, 24))])
    ks = ctx.pick([1, 3, 3, 4], [1, 3, 3, 4, 4, 5])
    from props.C03 import _cycle_mask, _filter_mask
    for _ in range(ctx.pick(60, 800)):
        k = rng.choice(ks)
        fam = rng.choice(["random", "cycle", "chain", "chain", "filter", "nearfull"])
        if fam == "random":
            mask = gens.rand_mask(rng, k, rng.choice([0.5, 0.7, 0.85, 0.95]))
        elif fam == "cycle":
            mask = _cycle_mask(rng, k)
        elif fam == "chain":
            mask = _chain_mask(rng, k)
        elif fam == "filter":
            mask = _filter_mask(rng, k)
        else:
            mask = [1] * (4 ** k)
            for _x in range(rng.choice([0, 1, 2, 5])):
                mask[rng.randrange(4 ** k)] = 0
        if not any(mask):
            continue
        yield "graph", dict(k=k, mask=G.mask_to_hex(mask), t=rng.choice([1, 1, 2, 3, 4]) if fam != "chain" else 1, fam=fam,
                            all_starts=k <= 1, n_msgs=ctx.pick(6, 8))
    for _ in range(ctx.pick(2, 12)):  # realistic filters at larger orders, through the library's own pipeline
        k = rng.choice(ctx.pick([4, 5], [4, 5, 6]))
        yield "graph", dict(k=k, filter=dict(run=rng.choice([1, 2, 3]), gc=rng.choice([[0.4, 0.6], [0.25, 0.75], [0.5, 0.5]])),
                            t=rng.choice([1, 2]), fam="localbiofilter", all_starts=False, n_msgs=ctx.pick(6, 8))
    stride = ctx.pick(16, 1)
    offset = rng.randrange(stride)
    i = 0
    for m in range(1, 65536):
        if m % stride != offset % stride:
            continue
        i += 1
        if not ctx.mine(i):
            continue
        for t in (1, 2, 3, 4):
            yield "graph", dict(k=2, mask="%x" % m, t=t, fam="order2", all_starts=True, n_msgs=ctx.pick(4, 3))


MESSAGE_KINDS = ["limbs", "dec-round", "random", "random", "random", "zeros", "ones", "leadzero", "trail1", "lead1", "pow2m1", "pow2p1", "len1", "len2", "len3",
                 "odd", "empty"]


def check_graph(ctx, case):
    """One generated graph, several starts and messages; sub-cases are accounted individually."""
    dsw = import_dsw()
    k, t = case["k"], case["t"]
    rng = random.Random(derive_seed(ctx.seed, jdump(case)))
    if "filter" in case:
        f = dsw.LocalBioFilter(observed_length=k, max_homopolymer_runs=case["filter"]["run"], gc_range=case["filter"]["gc"])
        try:
            mask = dsw.find_vertices(k, f)
        except ValueError:
            return
    else:
        mask = G.hex_to_mask(k, case["mask"], dtype=bool)
    if rng.random() < 0.3 and k <= 6:
        # G3 noise: a caller edits predecessor / successor lists it obtained earlier, then generates the graph
        for v in (range(4 ** k) if k <= 3 else [rng.randrange(4 ** k) for _ in range(8)]):
            alias.caller_edit(dsw.obtain_formers(v, k), rng)
            alias.caller_edit(dsw.obtain_latters(v, k), rng)
        ctx.cls("generation preceded by edited predecessor/successor lists")
    gen = monitored(dsw.connect_coding_graph, 400 * 4 ** k * (4 ** k + 8) + 20000, k, mask, t)
    if gen.kind != "ok":
        ctx.cls("generation|" + ("ValueError" if gen.kind == "raised" and isinstance(gen.exc, ValueError) else gen.kind))
        return  # C03 judges the generator
    acc = np.asarray(gen.value[1])
    live = G.live_vertices(acc)
    if not live:
        ctx.cls("generation|returned-empty")
        return
    V = len(live)
    degs_all = G.out_degrees(acc)
    has1 = bool((degs_all == 1).any())
    no3 = not bool((degs_all == 3).any())
    complete = bool((degs_all == 4).all())
    starts = live if case["all_starts"] else rng.sample(live, min(len(live), 4 if k < 8 else 40))
    max_len = 48 if k <= 2 else 96
    for start in starts:
        for mi in range(case["n_msgs"]):
            bits, mclass = gens.message(rng, max_len, rng.choice(MESSAGE_KINDS))
            fast = no3 and rng.random() < 0.4
            if case.get("long"):
                bits, mclass, fast = gens.message(rng, 8, "long")[0], "long", False
            _encode_one(ctx, dsw, case, acc, k, t, V, has1, complete, int(start), bits, fast, mclass,
                        dtype=rng.choice(["int64", "int64", "int64", "uint8", "uint8", "int8", "int32", "list"]))
        if rng.random() < 0.15:
            # buffer twins, one after the other: a short int64 message and the uint8 message with the same raw bytes
            short = [rng.randint(0, 1) for _ in range(rng.randint(1, 5))]
            raw = list(np.array(short, dtype="int64").tobytes())
            pair = [(raw, "uint8"), (short, "int64")]
            if rng.random() < 0.5:
                pair.reverse()
            for b2, dt in pair:
                _encode_one(ctx, dsw, case, acc, k, t, V, has1, complete, int(start), b2, False, "twin", dtype=dt)


def check_reused_list(ctx, case):
    """A caller tries start vertices one after the other with the same list object: fast mode refuses a walk that meets an
    out-degree-3 vertex (documented ValueError), the next attempt succeeds - and must carry L or L+1 bits of the list as the
    caller wrote it."""
    dsw = import_dsw()
    k = case["k"]
    rng = random.Random(case["seed"])
    try:
        acc3 = np.asarray(dsw.connect_coding_graph(k, G.hex_to_mask(k, case["mask"], dtype=bool), 3)[1])
        full = np.asarray(dsw.connect_coding_graph(k, np.ones(4 ** k, dtype=bool), 4)[1])
    except ValueError:
        return
    threes = np.nonzero(G.out_degrees(acc3) == 3)[0].tolist()
    if not threes:
        return
    bits = list(case["bits"])
    message = list(bits)
    refused = 0
    for v in rng.sample(threes, min(3, len(threes))):
        out = monitored(dsw.encode, encode_budget(len(bits), len(acc3)), message, acc3, int(v), is_faster=True)
        if out.kind == "raised" and isinstance(out.exc, ValueError):
            refused += 1
    if not refused:
        return
    where = "k=%d, list message %s after %d refused fast-mode attempts on graph %s" % (k, bits, refused, G.acc_to_hex(acc3))
    if message != bits:
        ctx.fail("message-argument-modified", "the caller's list is now %s; %s" % (message, where))
    start = rng.randrange(4 ** k)
    out = monitored(dsw.encode, encode_budget(len(bits), 4 ** k), message, full, start, is_faster=True)
    if out.kind != "ok" or not is_strand(out.value):
        ctx.fail("encode-" + out.kind, "fast encode on the complete graph %s; %s" % (out.describe(), where))
    elif 2 * len(out.value) not in (len(bits), len(bits) + 1):
        ctx.fail("not-tight:fast-bit-count", "the strand %s carries %d bits, L = %d; %s" % (out.value, 2 * len(out.value), len(bits), where))
    ctx.cls("list message reused after a refused fast-mode attempt")
    ctx.done("reused_list", case, True)


def _encode_one(ctx, dsw, case, acc, k, t, V, has1, complete, start, bits, fast, mclass, dtype="int64"):
    L = len(bits)
    value = oracles.bits_value(bits)
    sub = dict(k=k, arcs=G.acc_to_hex(acc), t=t, start=start, bits=bits, fast=fast, dtype=dtype)
    nontrivial = has1 or (t >= 2 and L >= 2)
    verbose = (hash((start, L, fast)) % 20 == 0)     # progress output on for about 5 % of the calls
    if verbose:
        ctx.cls("encode with progress output")
    read_budget = 4 * L * V + 8  # cut for non-termination; the property's bound itself is checked on the strand length
    proxy = CountingAccessor(acc, read_budget=read_budget)
    del TRACE[:]
    vt = (0, 0, 0, 1, 3)[(L + start + len(dtype)) % 5]        # a path check requested as well: the result is (strand, check)
    with clock.budget(encode_budget(L, V)) as b, int_str_trap():
        try:
            if verbose:
                import contextlib
                import io
                with contextlib.redirect_stdout(io.StringIO()):
                    out = dsw.encode(gens.as_message(bits, dtype), proxy, start, is_faster=fast, vt_length=vt, verbose=True)
            else:
                out = dsw.encode(gens.as_message(bits, dtype), proxy, start, is_faster=fast, vt_length=vt)
            kind = "ok"
            if vt:
                ctx.cls("encode with a path check requested")
                if isinstance(out, tuple) and len(out) == 2 and isinstance(out[1], str) and len(out[1]) == vt:
                    out = out[0]
        except AccessBudgetExceeded:
            kind, out = "lookups", None
        except clock.BudgetExceeded:
            kind, out = "budget", None
        except Exception as e:  # noqa
            kind, out = "raised", e
    ctx.obs("row_reads_over_bound", proxy.reads / read_budget)
    ctx.obs("loop_iterations_over_budget", b.count / encode_budget(L, V))
    mode = "fast" if fast else "normal"
    ctx.cls("message container|" + dtype)
    where = "k=%d t=%d start=%d bits=%s (%s) mode=%s graph=%s" % (k, t, start, bits, dtype, mode, sub["arcs"])
    if kind in ("lookups", "budget"):
        ctx.fail("no-termination-within-bound", "encode exceeded %s (L=%d, V=%d): %s" % (
            "4*L*V+8 = %d graph look-ups (4 per step of the L*V bound)" % read_budget if kind == "lookups" else "the loop-iteration budget", L, V, where), "encode", sub)
    elif kind == "raised":
        ctx.fail("encode-raised:" + type(out).__name__, "encode raised %s: %s; %s" % (type(out).__name__, out, where), "encode", sub)
    elif not is_strand(out):
        ctx.fail("encode-shape", "encode returned %r; %s" % (out, where), "encode", sub)
    else:
        strand = out
        w = G.walk(acc, start, strand)
        if not w["ok"]:
            ctx.fail("not-a-walk", "strand %s leaves the generated graph at %d (%s); %s" % (strand, w["pos"], w["reason"], where), "encode", sub)
        else:
            degs = w["degs"]
            if len(strand) > L * V:
                ctx.fail("more-steps-than-L*V", "%d steps > L*V = %d*%d; %s" % (len(strand), L, V, where), "encode", sub)
            ctx.obs("steps_over_L*V", len(strand) / max(L * V, 1))
            if strand and degs[-1] < 2:
                ctx.fail("not-tight:last-step-carries-no-information", "strand %s ends at an out-degree-1 vertex; %s" % (strand, where), "encode", sub)
            if not fast:
                if strand:
                    prod = math.prod(degs[:-1])
                    if prod > value:
                        ctx.fail("not-tight:product-exceeds-value", "product of out-degrees before the last step %d > value %d; strand %s; %s" % (
                            prod, value, strand, where), "encode", sub)
                if value == 0 and strand:
                    ctx.fail("not-tight:zero-message", "zero message encoded to %r; %s" % (strand, where), "encode", sub)
                if t >= 2 and len(strand) > L:
                    ctx.fail("not-tight:longer-than-L", "len %d > L %d on a threshold-%d graph; %s" % (len(strand), L, t, where), "encode", sub)
                if complete and len(strand) > (L + 1) // 2:
                    ctx.fail("not-tight:complete-graph", "len %d > ceil(L/2) = %d on the complete graph; %s" % (len(strand), (L + 1) // 2, where), "encode", sub)
                # quotient monotonicity, from the frame-local probe
                if TRACE:
                    ctx.mon("quotient-trace-checked")
                    qs = []
                    try:
                        qs = [(int(q), v) for q, v in TRACE]
                    except (TypeError, ValueError):
                        qs = []
                    for (q0, v0), (q1, _v1) in zip(qs, qs[1:]):
                        d = int((acc[v0] >= 0).sum())
                        if q1 > q0 or (d >= 2 and q1 >= q0):
                            ctx.fail("quotient-not-decreasing", "quotient %d -> %d at vertex %d (out-degree %d); %s" % (q0, q1, v0, d, where), "encode", sub)
                            break
            else:
                carried = sum(2 if d == 4 else 1 if d == 2 else 0 for d in degs)
                if carried not in (L, L + 1):
                    ctx.fail("not-tight:fast-carried-bits", "steps carry %d bits for L=%d; strand %s; %s" % (carried, L, strand, where), "encode", sub)
                if carried == L + 1:
                    ctx.cls("fast|carried L+1")
            for d in set(degs):
                ctx.cls("%s|met out-degree %d" % (mode, d))
            if strand and 1 in degs:
                ctx.obs("longest out-degree-1 run", _longest_run(degs))
    ctx.cls("t%d|%s" % (t, mode))
    ctx.cls("family|" + case["fam"])
    ctx.cls("msg|" + mclass)
    ctx.done("encode", sub, nontrivial)


def _longest_run(degs):
    best = cur = 0
    for d in degs:
        cur = cur + 1 if d == 1 else 0
        best = max(best, cur)
    return best


def check_encode(ctx, case):
    """Replay entry: one (graph, start, message) sub-case."""
    dsw = import_dsw()
    acc = gens.acc_of(case)
    degs_all = G.out_degrees(acc)
    _encode_one(ctx, dsw, dict(fam="replay"), acc, case["k"], case["t"], int((degs_all > 0).sum()), bool((degs_all == 1).any()),
                bool((degs_all == 4).all()), case["start"], case["bits"], case["fast"], "replay", dtype=case.get("dtype", "int64"))


CHECKS = {"graph": check_graph, "encode": check_encode, "reused_list": check_reused_list}


def floors(agg, tier):
    out = []
    c = agg["classes"]
    for name, need in (("t1|normal", 1000), ("t1|fast", 300), ("t2|normal", 1000), ("t2|fast", 300), ("t3|normal", 50),
                       ("t4|normal", 20), ("normal|met out-degree 1", 500), ("normal|met out-degree 3", 200),
                       ("fast|carried L+1", 50), ("family|chain", 100), ("family|localbiofilter", 10), ("msg|zeros", 100),
                       ("family|deep-sweeps", 20), ("family|order-8", 100), ("family|long-chain", 20), ("encode with a path check requested", 5000), ("list message reused after a refused fast-mode attempt", 60), ("message container|uint8", 2000), ("message container|list", 1000), ("msg|long", 2), ("msg|twin", 200), ("encode with progress output", 500),
                       ("generation preceded by edited predecessor/successor lists", 100)):
        if c.get(name, 0) < need:
            out.append("%s observed %d < %d" % (name, c.get(name, 0), need))
    if agg["obs_max"].get("longest out-degree-1 run", 0) < 200:
        out.append("longest out-degree-1 run met is %s < 200" % agg["obs_max"].get("longest out-degree-1 run", 0))
    return out
