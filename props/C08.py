"""C08 - repair recovers the original strand for separated interior edits (DESIGN.md section 4, C08)."""
import random

import numpy as np

from vlib import clock, graphs as G, gens, oracles
from vlib.base import import_dsw, derive_seed, jdump
from props._repair import generated_graph, large_order_graph, call_repair, well_formed

ID = "C08"
LEVEL = "fault_enumeration"
TECHNIQUE = ("runtime monitoring of the real repair_dna on enumerated edit faults: for each generated walk every interior position "
             "x every edit kind x every replacement nucleotide is injected, and the returned candidates / detected-error count "
             "are compared with a walk oracle and membership of the original strand")
LEVEL_TEXT = ("Exhaustive single-edit enumeration per generated walk (every position in [k, n-2k) x 3 substitutions, 4 insertions, "
              "1 deletion), densely sampled multi-edit sets (70+ sets of 2-3 edits per walk at the minimal spacing 3k+2 and wider), with and without the check, "
              "k = 1..4 (5 thorough). Held on all of them; floors on detected == |E| per k, multi-edit cases and every detection "
              "delay 0..k-1.")
LEVEL_NOTE = ("Graphs come from the library's own generator (as the property states). heap_size = 1e6 is unrestrictive by "
              "construction here (<= (8k)^|E| combinations); the harness confirms from the statistics that the limit did not "
              "decide the answer. Nothing beyond membership and the detected count is demanded.")
PLAN = {"quick": dict(shards=16, budget=100), "thorough": dict(shards=16, budget=500)}
RULE = ("G = connect_coding_graph(k, mask, t) for sparse / dense / filter masks, t = 1..3; w = random walk of length n from a "
        "retained start; E = one edit at every position p in [k, n-2k) x {S x3, I x4, D}, and 2-3 edits pairwise >= 3k+2 apart; "
        "repair_dna(apply(E, w), G, v, k, has_indel=True, heap_size in {1e6, 10^9, inf} [, vt_check = VT(w)]). Verdict: detected == |E| => w in "
        "candidates; |E| = 1: detected == 1 iff the corrupted strand is not a walk (else 0); substitutions only: the same with "
        "has_indel=False. Non-trivial: the corrupted strand is not a walk of G (an error is there to be found); distinct = hash of "
        "(graph, start, walk, edits, options)."
        ' Also: order-8 generated graphs (vertex indices beyond 2^15) and edit sequences in which one accessor object is refilled in place with another generated graph between repairs; build-use-release campaigns over mirror-image constraint sets (GC windows [0,0.5] / [0.5,1], a motif and its complement / reversal) in which every graph object is dropped before the next is built.')
HEAP = 1e6


def setup(ctx):
    import_dsw()
    clock.install(lines=False)


def generate(ctx):
    rng = ctx.rng
    dsw = import_dsw()
    if ctx.shard % 4 == 1 or not ctx.quick():
        big = large_order_graph(dsw, rng, 8)     # vertex indices beyond 2^15
        if big is not None:
            live8 = G.live_vertices(big)
            g8 = dict(gens.graph_case(big, 8), t=0, fam="order-8")
            for _ in range(3):
                st = int(rng.choice(live8))
                w = G.random_walk(big, st, 5 * 8 + 6, rng)
                if len(w) < 3 * 8 + 2:
                    continue
                for _e in range(25):
                    p = rng.randrange(8, len(w) - 16)
                    kind = rng.choice("SSID")
                    e = ["S", p, rng.choice([c for c in "ACGT" if c != w[p]])] if kind == "S" else ["I", p, rng.choice("ACGT")] if kind == "I" else ["D", p]
                    yield "edit_set", dict(g8, start=st, walk=w, edits=[e], check=rng.choice([0, 4]), indel=True)
    for _ in range(ctx.pick(1, 4)):
        # build-use-release campaigns over constraint sets that are mirror images of each other (same order, same size,
        # same number of arcs): every graph object is dropped before the next one is built
        yield "twin_campaign", dict(seed=rng.getrandbits(40), rounds=ctx.pick(6, 12))
    for _ in range(ctx.pick(20, 200)):   # G2: the same array object refilled with another graph between repairs
        k = rng.choice([1, 2, 2, 3])
        states = []
        for _s in range(rng.randint(2, 3)):
            g = generated_graph(dsw, rng, k)
            if g is None:
                continue
            a = g[0]
            st = int(rng.choice(G.live_vertices(a)))
            w = G.random_walk(a, st, 5 * k + 6, rng)
            if len(w) >= 3 * k + 2:
                p = rng.randrange(k, len(w) - 2 * k)
                states.append(dict(arcs=G.acc_to_hex(a), start=st, walk=w, edit=["S", p, rng.choice([c for c in "ACGT" if c != w[p]])]))
        if len(states) >= 2:
            yield "edit_sequence", dict(k=k, states=states)
    for _ in range(ctx.pick(60, 600)):
        # valid graphs (connect_valid_graph keeps vertices without successors): walks that run into such a vertex and stop there
        k = rng.choice([2, 3, 3, 4])
        mask = np.array(gens.rand_mask(rng, k, rng.choice([0.45, 0.55, 0.65, 0.75])), dtype=bool)
        if not mask.any():
            continue
        try:
            acc = np.asarray(dsw.connect_valid_graph(k, mask))
        except ValueError:
            continue
        live = G.live_vertices(acc)
        if not live:
            continue
        for _w in range(6):
            start = int(rng.choice(live))
            want = rng.choice([5 * k + 6, 9 * k + 8, 14 * k + 10])
            w = G.random_walk(acc, start, want, rng)
            if len(w) >= 3 * k + 2 and len(w) < want:          # the walk ended in a vertex without arcs
                yield "single_edits", dict(gens.graph_case(acc, k), t=0, fam="valid-graph walk ending in a dead end", start=start, walk=w,
                                           check=rng.choice([0, 0, 3]))
    ks = ctx.pick([1, 2, 2, 3, 3, 4], [1, 2, 2, 3, 3, 4, 4, 5])
    for _ in range(ctx.pick(40, 500)):
        k = rng.choice(ks)
        g = generated_graph(dsw, rng, k)
        if g is None:
            continue
        acc, t, fam = g
        live = G.live_vertices(acc)
        gcase = dict(gens.graph_case(acc, k), t=t, fam=fam)
        for _w in range(ctx.pick(2, 3)):
            start = rng.choice(live)
            n = rng.choice([3 * k + 4, 5 * k + 6, 9 * k + 8, 12 * k + 10, 20 * k + 12, 30 * k + 10])
            w = G.random_walk(acc, start, n, rng)
            if len(w) < 3 * k + 2:
                continue
            yield "single_edits", dict(gcase, start=int(start), walk=w, check=rng.choice([0, 0, 1, 3, 6]))
            n = len(w)
            # repeated contexts: the same edit at two (three) positions whose surrounding 2k symbols coincide while the
            # symbols further upstream differ - where anything keyed on the local context goes wrong
            for ctx_len in (2 * k, 2 * k - 1, k + 1):
                seen_ctx = {}
                for p in range(k, n - 2 * k):
                    seen_ctx.setdefault(w[max(0, p - ctx_len // 2): p + (ctx_len + 1) // 2 + 1], []).append(p)
                for key, ps in seen_ctx.items():
                    pair = [ps[0]]
                    for p in ps[1:]:
                        if p - pair[-1] >= 3 * k + 2:
                            pair.append(p)
                    if len(pair) >= 2:
                        for x in "ACGT":
                            if x != w[pair[0]]:
                                yield "edit_set", dict(gcase, start=int(start), walk=w, edits=[["S", p, x] for p in pair[:3]],
                                                       check=rng.choice([0, 0, 4]), indel=rng.random() < 0.7, rep=True)
            for _m in range(ctx.pick(70, 150) * (3 if k == 3 else 1)):
                m = rng.choice([2, 2, 2, 3])
                pos = _positions(rng, k, n - 2 * k, m, 3 * k + 2)
                if pos is None:
                    continue
                edits = []
                for p in pos:
                    kind = rng.choice("SSSSID")
                    if kind == "S":
                        edits.append(["S", p, rng.choice([c for c in "ACGT" if c != w[p]])])
                    elif kind == "I":
                        edits.append(["I", p, rng.choice("ACGT")])
                    else:
                        edits.append(["D", p])
                yield "edit_set", dict(gcase, start=int(start), walk=w, edits=edits, check=rng.choice([0, 0, 1, 4]),
                                       indel=True if any(e[0] != "S" for e in edits) else rng.choice([True, False]))


def _positions(rng, lo, hi, m, gap):
    """m positions in [lo, hi), pairwise >= gap apart; half of the time at exactly the minimal spacing."""
    need = (m - 1) * gap + 1
    if hi - lo < need:
        return None
    slack = hi - lo - need
    if rng.random() < 0.5:
        extras = [rng.randint(0, slack)] + [0] * (m - 1)
    else:
        cuts = sorted(rng.randint(0, slack) for _ in range(m))
        extras = [cuts[0]] + [cuts[i] - cuts[i - 1] for i in range(1, m)]
    pos, cur = [], lo
    for i in range(m):
        cur += extras[i] + (gap if i else 0)
        pos.append(cur)
    return pos


def check_edit_sequence(ctx, case):
    """G2: one accessor object, refilled in place with another generated graph between repairs."""
    dsw = import_dsw()
    k = case["k"]
    live = G.hex_to_acc(k, case["states"][0]["arcs"])
    for st in case["states"]:
        live[...] = G.hex_to_acc(k, st["arcs"])
        before = ctx.violation_count
        _judge(ctx, dsw, dict(arcs=st["arcs"], start=st["start"], fam="edit-sequence"), live, k, st["walk"], [st["edit"]], 0, True, "edit_set")
        if ctx.violation_count > before:
            ctx.violations[-1]["check"], ctx.violations[-1]["case"] = "edit_sequence", case
            return
    ctx.cls("edit sequences (same accessor object refilled in place)")


def check_twin_campaign(ctx, case):
    import random as _r
    dsw = import_dsw()
    rng = _r.Random(case["seed"])
    settings = [(k, hp, gc, None) for k in (3, 4) for hp in (2, 3) for gc in ([0.0, 0.5], [0.5, 1.0], [0.25, 0.75])]
    for k in (3, 4):
        m = gens.random_dna(rng, 2)
        settings += [(k, None, None, [m]), (k, None, None, [oracles.revcomp(m)]), (k, None, None, [m[::-1]]),
                     (k, None, None, ["".join({"A": "T", "C": "G", "G": "C", "T": "A"}[c] for c in m)])]
    plan = settings * case["rounds"]
    rng.shuffle(plan)
    for k, hp, gc, motifs in plan:
        filt = dsw.LocalBioFilter(observed_length=k, max_homopolymer_runs=hp, gc_range=gc, undesired_motifs=motifs)
        try:
            acc = dsw.connect_coding_graph(k, dsw.find_vertices(k, filt), 1)[1]
        except ValueError:
            continue
        shadow = np.array(acc)                     # the oracle's own copy; `acc` is the only reference to the library's object
        live = G.live_vertices(shadow)
        if not live:
            continue
        arcs = G.acc_to_hex(shadow)
        for _w in range(2):
            start = int(rng.choice(live))
            w = G.random_walk(shadow, start, 5 * k + 6, rng)
            if len(w) < 3 * k + 2:
                continue
            for _e in range(4):
                p = rng.randrange(k, len(w) - 2 * k)
                kind = rng.choice("SSSID")
                e = ["S", p, rng.choice([c for c in "ACGT" if c != w[p]])] if kind == "S" else ["I", p, rng.choice("ACGT")] if kind == "I" else ["D", p]
                before = ctx.violation_count
                _judge(ctx, dsw, dict(arcs=arcs, start=start, fam="twin-campaign"), acc, k, w, [e], rng.choice([0, 4]), True, "edit_set")
                if ctx.violation_count > before:
                    ctx.violations[-1]["check"], ctx.violations[-1]["case"] = "twin_campaign", case
                    return
        del acc, filt
        ctx.cls("build-use-release campaigns on mirror-image constraint sets")


def _judge(ctx, dsw, case, acc, k, w, edits, check_len, has_indel, sub_name):
    start = case["start"]
    corrupted = gens.apply_edits(w, [tuple(e) for e in edits])
    check = oracles.vt(w, check_len) if check_len else None
    sub = dict(k=k, arcs=case["arcs"], start=start, walk=w, edits=edits, check=check_len, indel=has_indel)
    # "unrestrictive": a large float, a large int, or no limit at all
    heap = [HEAP, HEAP, 10 ** 9, "inf"][(len(corrupted) + len(edits) + (edits[0][1] if edits else 0)) % 4]
    # the flag as callers hold it: a literal, a numpy bool (the outcome of a comparison), 0 / 1
    form = (len(corrupted) + len(w)) % 3
    flag = ((True, np.bool_(True), 1) if has_indel else (False, np.bool_(False), 0))[form]
    kind, res, _r, steps = call_repair(dsw, corrupted, acc, start, k, check=check, has_indel=flag, heap=heap)
    ctx.cls("indel flag passed as %s" % ("a literal", "numpy.bool_", "0 / 1")[form])
    ctx.cls("heap limit|%s" % heap)
    where = "k=%d start=%s walk=%s edits=%s corrupted=%s check=%s has_indel=%s graph=%s" % (
        k, G.kmer(start, k), w, edits, corrupted, check, has_indel, case["arcs"])
    cw = G.walk(case.get("shadow", acc), start, corrupted)
    if kind != "ok" or not well_formed(res):
        ctx.fail("repair-" + (kind if kind != "ok" else "malformed-result"), "repair_dna %s; %s" % (
            ("raised %s: %s" % (type(res).__name__, res)) if kind == "raised" else kind if kind != "ok" else repr(res)[:200], where), sub_name, sub)
        ctx.done(sub_name, sub, not cw["ok"])
        return
    cands, stats = res
    detected = int(stats[0])
    m = len(edits)
    if detected == m and m >= 1:
        if w not in cands:
            ctx.fail("original-not-recovered", "detected %d == |E| but the original strand is not among the %d candidates %s; %s" % (
                detected, len(cands), cands[:4], where), sub_name, sub)
        ctx.cls("k=%d|detected == |E| = %d" % (k, m))
        if m >= 2:
            ctx.cls("multi-edit|detected == |E|")
        if len(stats) >= 3 and stats[2] and float(stats[2]) > HEAP and heap == HEAP:
            ctx.fail("heap-limit-was-restrictive", "candidate product %s exceeds the 'unrestrictive' heap limit; %s" % (stats[2], where), sub_name, sub)
    if m == 1:
        if detected != (0 if cw["ok"] else 1):
            ctx.fail("detection-mismatch", "single edit: corrupted strand is %s of the graph but %d error(s) reported (statistics %s); %s" % (
                "a walk" if cw["ok"] else "not a walk (first bad position %d)" % cw["pos"], detected, list(stats), where), sub_name, sub)
        if not cw["ok"]:
            delay = cw["pos"] - edits[0][1]
            ctx.cls("k=%d|detection delay %d" % (k, delay))
            ctx.cls("edit|%s detected" % edits[0][0])
        else:
            ctx.cls("edit|%s undetectable (still a walk)" % edits[0][0])
    if case.get("rep"):
        ctx.cls("same edit at positions with identical local context")
    ctx.cls("has_indel=%s" % has_indel)
    ctx.cls("check|%s" % ("supplied" if check else "none"))
    ctx.cls("family|" + case.get("fam", "?"))
    ctx.obs("max_candidates", len(cands))
    ctx.done(sub_name, sub, not cw["ok"])


def check_single_edits(ctx, case):
    dsw = import_dsw()
    acc = gens.acc_of(case)
    k, w = case["k"], case["walk"]
    n = len(w)
    for p in range(k, n - 2 * k):
        for x in "ACGT":
            if x != w[p]:
                _judge(ctx, dsw, case, acc, k, w, [["S", p, x]], case["check"], True, "edit_set")
                if (p + "ACGT".index(x)) % 3 == 0:
                    _judge(ctx, dsw, case, acc, k, w, [["S", p, x]], case["check"], False, "edit_set")
            _judge(ctx, dsw, case, acc, k, w, [["I", p, x]], case["check"], True, "edit_set")
        _judge(ctx, dsw, case, acc, k, w, [["D", p]], case["check"], True, "edit_set")


def check_edit_set(ctx, case):
    dsw = import_dsw()
    acc = gens.acc_of(case)
    _judge(ctx, dsw, case, acc, case["k"], case["walk"], case["edits"], case["check"], case["indel"], "edit_set")


CHECKS = {"twin_campaign": check_twin_campaign, "single_edits": check_single_edits, "edit_set": check_edit_set, "edit_sequence": check_edit_sequence}


def floors(agg, tier):
    out = []
    c = agg["classes"]
    for name, need in (("edit sequences (same accessor object refilled in place)", 100), ("family|order-8", 50), ("build-use-release campaigns on mirror-image constraint sets", 200),
                       ("same edit at positions with identical local context", 1000)):
        if c.get(name, 0) < need:
            out.append("%s observed %d < %d" % (name, c.get(name, 0), need))
    ks = (1, 2, 3, 4) if tier == "quick" else (1, 2, 3, 4, 5)
    for k in ks:
        if c.get("k=%d|detected == |E| = 1" % k, 0) < 200:
            out.append("k=%d: detected == |E| = 1 observed %d < 200" % (k, c.get("k=%d|detected == |E| = 1" % k, 0)))
        for d in range(k):
            if c.get("k=%d|detection delay %d" % (k, d), 0) < 5:
                out.append("k=%d: detection delay %d observed %d < 5" % (k, d, c.get("k=%d|detection delay %d" % (k, d), 0)))
    if c.get("multi-edit|detected == |E|", 0) < 3000:
        out.append("multi-edit sets with detected == |E| observed %d < 3000" % c.get("multi-edit|detected == |E|", 0))
    for name, need in (("has_indel=False", 200), ("heap limit|inf", 2000), ("indel flag passed as numpy.bool_", 5000), ("indel flag passed as 0 / 1", 5000), ("family|valid-graph walk ending in a dead end", 1000), ("heap limit|1000000000", 2000), ("check|supplied", 200), ("edit|I detected", 200), ("edit|D detected", 100)):
        if c.get(name, 0) < need:
            out.append("%s observed %d < %d" % (name, c.get(name, 0), need))
    return out
