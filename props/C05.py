"""C05 - the strand is the documented mixed-radix walk, independent of implementation (DESIGN.md section 4, C05)."""
import itertools
import os

import numpy as np

from vlib import clock, contracts, graphs as G, gens, oracles
from vlib.base import import_dsw, REPO
from vlib.coding import ArgGuard, table_of, rand_table_spec, encode_budget, decode_budget, monitored, bits_equal

ID = "C05"
LEVEL = "exploration"
TECHNIQUE = ("runtime contracts (icontract postconditions) on the real encode and decode, evaluated against an independent "
             "integer-arithmetic reference coder on every call of a generated workload and of the repository's own coding tests")
LEVEL_TEXT = ("Every encode/decode call of the workload (and of tests/test_coding.py + tests/test_shuffling.py run in-process "
              "with the contracts on) satisfied the postcondition 'result == reference coder'. Exhaustive over the 24 constant "
              "tables x 15 live-arc patterns x all first digits; otherwise sampled.")
LEVEL_NOTE = ("Trusts the 60-line reference coder in vlib/oracles.py (Python ints, divmod, sorted-by-table-entry). Decode is "
              "judged only where the property defines the result (value fits in the width; fast mode: carried bits == L, or "
              "L+1 with a zero pad bit).")
PLAN = {"quick": dict(shards=17, budget=100), "thorough": dict(shards=17, budget=420)}
SPECIAL_SHARD = True  # the last shard runs the repository's own coding tests in-process under the contracts
EXHAUSTIVE = ["tables24xpatterns15"]
RULE = ("icontract ensure on dsw.encode: strand == reference strand (little-endian mixed radix, digit d -> d-th live arc in "
        "A<C<G<T order or live arc with d-th smallest table entry, out-degree 1 emits no digit; fast mode 2 bits MSB-first at "
        "4-way, 1 bit at 2-way vertices, missing last bit = 0). icontract ensure on dsw.decode: for a walk whose digit value "
        "fits, result == value big-endian at the requested width. Workload: well-formed arc-subset graphs (out-degrees 1-4), "
        "closed graphs, complete graphs, k<=3 (quick) / 5 (thorough); random / constant / no tables; message classes as C01; "
        "arbitrary non-tight walks (incl. trailing zero digits) for the decode side; exhaustive 24 constant tables x 15 live "
        "patterns at the start vertex x every first digit. Non-trivial: the walk meets a vertex of out-degree 3 or 4 whose "
        "table row is not the identity, or two different radices > 1; distinct = canonical hash of the case."
        ' Also: messages of 100-400 bits, messages whose first 63..256 bits are zero (word boundaries), one message beyond 2100 bits (int<->str trap), buffer twins, widths as numpy unsigned integers, and edit sequences on one accessor object overwritten in place.')

STATE = {"undefined": 0}


# ---- contract conditions (named functions; parameter names match the decorated function's) --------------------------

def strand_is_reference(binary_message, accessor, start_index, is_faster, shuffles, result):
    strand = result[0] if isinstance(result, tuple) else result
    try:
        ref, _ = oracles.ref_encode(list(binary_message), np.asarray(accessor), start_index, bool(is_faster),
                                    None if shuffles is None else np.asarray(shuffles))
    except oracles.RefUndefined:
        STATE["undefined"] += 1
        return True
    return strand == ref


def bits_are_reference(dna_sequence, bit_length, accessor, start_index, is_faster, shuffles, result):
    try:
        digits = oracles.walk_digits(dna_sequence, np.asarray(accessor), start_index,
                                     None if shuffles is None else np.asarray(shuffles))
        if is_faster:
            carried = oracles.fast_bits(digits)
            if len(carried) == bit_length:
                want = carried
            elif len(carried) == bit_length + 1 and carried[-1] == 0:
                want = carried[:-1]
            else:
                raise oracles.RefUndefined("carried bits %d vs width %d" % (len(carried), bit_length))
        else:
            value = oracles.digits_value(digits)
            if value >= 2 ** bit_length:
                raise oracles.RefUndefined("value does not fit")
            want = oracles.value_bits(value, bit_length)
    except oracles.RefUndefined:
        STATE["undefined"] += 1
        return True
    return bits_equal(result, want)


def setup(ctx):
    dsw = import_dsw()
    import dsw.spiderweb as sw
    clock.install(lines=False)
    contracts.install(sw.encode, "encode", ensures=[strand_is_reference])
    contracts.install(sw.decode, "decode", ensures=[bits_are_reference])


def finish(ctx):
    for k, v in contracts.EVALS.items():
        ctx.mon("contract-evaluations:" + k, v)
    ctx.mon("contract-not-judged(reference undefined)", STATE["undefined"])
    ctx.notes["contract_backend"] = contracts.BACKEND


def generate(ctx):
    rng = ctx.rng
    if ctx.special:
        yield "repo_tests", dict(files=ctx.pick(["tests/test_coding.py"], ["tests/test_coding.py", "tests/test_shuffling.py"]))
        return
    # exhaustive: 24 constant tables x 15 live patterns at the start vertex (k=2, start=AC) x messages hitting every digit
    perms = list(itertools.permutations(range(4)))
    combos = [(p, pat) for p in perms for pat in range(1, 16)]
    for i, (p, pat) in enumerate(combos):
        if not ctx.mine(i):
            continue
        acc = G.complete(2)
        for j in range(4):
            if not (pat >> j) & 1:
                acc[1, j] = -1
        gcase = gens.graph_case(acc, 2)
        deg = bin(pat).count("1")
        for value in range(12):
            yield "encode", dict(gcase, start=1, bits=oracles.value_bits(value, 5), fast=False, table=["const", list(p)],
                                 fam="pattern", dtype="int64")
        if deg in (2, 4):
            for bits in ([0, 0, 1], [0, 1, 1], [1, 0, 0], [1, 1, 0], [1], [0]):
                yield "encode", dict(gcase, start=1, bits=bits, fast=True, table=["const", list(p)], fam="pattern",
                                     dtype="int64")
        for _ in range(3):
            s = G.random_walk(acc, 1, rng.randint(1, 6), rng)
            yield "decode_walk", dict(gcase, start=1, strand=s, fast=False, table=["const", list(p)], slack=rng.choice([0, 1, 4]))
    ctx.exhausted["tables24xpatterns15"] = True

    # long messages (word / limb boundaries at 64, 128 ... bits; beyond 2100 bits the int<->str trap bites),
    # buffer twins (raw bytes of a short int64 message re-read as a uint8 message) and edit sequences (G2)
    for _ in range(ctx.pick(1, 3)):
        k = rng.choice([1, 2])
        acc = G.complete(k) if rng.random() < 0.5 else gens.arc_graph(rng, k)
        if acc is not None:
            yield "encode", dict(gens.graph_case(acc, k), start=int(rng.choice(G.live_vertices(acc))), bits=gens.message(rng, 8, "long")[0],
                                 fast=False, table=None, fam="long", dtype="int64")
    if ctx.shard % 4 == 1:
        # a walk that carries more than 2100 bits, decoded under the int<->str trap (the number has more than 640 digits)
        k = rng.choice([1, 2])
        acc = G.complete(k)
        s = G.random_walk(acc, 0, rng.randint(1100, 1300), rng)
        yield "decode_walk", dict(gens.graph_case(acc, k), start=0, strand=s, fast=False, table=None, slack=rng.choice([0, 1, 4]), fam="long")
    for _ in range(ctx.pick(40, 300)):
        k = rng.choice([1, 2, 3])
        acc = gens.arc_graph(rng, k)
        if acc is None:
            continue
        start = int(rng.choice(G.live_vertices(acc)))
        gcase = gens.graph_case(acc, k)
        kind = rng.choice(["leading-zero-words", "twin", "wide"])
        if kind == "leading-zero-words":
            z = rng.choice([63, 64, 65, 127, 128, 129, 192, 256])
            bits = [0] * z + [rng.randint(0, 1) for _ in range(rng.choice([1, 4, 7, 30, 64, 70]))]
            yield "encode", dict(gcase, start=start, bits=bits, fast=False, table=rand_table_spec(rng, 0.5), fam=kind, dtype="int64")
        elif kind == "wide":
            bits, _c = gens.message(rng, rng.choice([100, 200, 400]))
            yield "encode", dict(gcase, start=start, bits=bits, fast=False, table=rand_table_spec(rng, 0.5), fam=kind, dtype=rng.choice(["int64", "uint8", "list"]))
        else:
            short = [rng.randint(0, 1) for _ in range(rng.randint(1, 6))]
            raw = list(np.array(short, dtype="int64").tobytes())
            pair = [(raw, "uint8"), (short, "int64")]
            rng.shuffle(pair)
            for b, dt in pair:
                yield "encode", dict(gcase, start=start, bits=b, fast=False, table=None, fam=kind, dtype=dt)
    for _ in range(ctx.pick(25, 250)):
        k = rng.choice([1, 2, 2, 3])
        fast = rng.random() < 0.4
        states = []
        for _s in range(rng.randint(2, 4)):
            a = gens.arc_graph(rng, k, forbid3=fast)
            if a is not None:
                states.append(dict(arcs=G.acc_to_hex(a), start=int(rng.choice(G.live_vertices(a)))))
        if len(states) >= 2:
            yield "edit_sequence", dict(k=k, fast=fast, states=states, table=rand_table_spec(rng, 0.4),
                                        msgs=[gens.message(rng, 40)[0] for _ in states])
    ks = ctx.pick([1, 2, 2, 3, 3, 4], [1, 2, 2, 3, 3, 4, 4, 5, 6])
    max_len = ctx.pick(64, 256)
    for gi in range(ctx.pick(200, 1500)):
        k = rng.choice(ks)
        fast = rng.random() < 0.4
        fam = rng.choice(["arc", "arc", "arc", "closed", "complete"])
        if fam == "arc":
            acc = gens.arc_graph(rng, k, forbid3=fast)
        elif fam == "closed":
            acc, _ = gens.closed_graph(rng, k, rng.choice([1, 2, 3]))
            if acc is not None and fast:
                acc = G.prune_arcs(acc, k, forbid3=True, rng=rng)
                if not (acc >= 0).any():
                    acc = None
        else:
            acc = G.complete(k)
        if acc is None:
            continue
        gcase = gens.graph_case(acc, k)
        live = G.live_vertices(acc)
        starts = live if k <= 2 else rng.sample(live, min(len(live), 4))
        for start in starts:
            for _ in range(ctx.pick(5, 8)):
                bits, mclass = gens.message(rng, max_len)
                yield "encode", dict(gcase, start=int(start), bits=bits, fast=fast, table=rand_table_spec(rng, 0.25),
                                     fam=fam, dtype=rng.choice(["int64", "int64", "int8", "list"]))
            for _ in range(ctx.pick(4, 6)):
                s = G.random_walk(acc, start, rng.choice([1, 2, 3, 5, 8, 13, 21, 40]), rng)
                yield "decode_walk", dict(gcase, start=int(start), strand=s, fast=fast, table=rand_table_spec(rng, 0.25),
                                          slack=rng.choice([0, 0, 1, 2, 7]))


def _nontrivial(acc, start, strand, shuf):
    w = G.walk(acc, start, strand)
    radices = {d for d in w["degs"] if d > 1}
    if len(radices) >= 2:
        return True
    if shuf is not None:
        for v, d in zip(w["vertices"], w["degs"]):
            if d >= 3 and list(shuf[v]) != [0, 1, 2, 3]:
                return True
    return False


def _report(ctx, out, what):
    if out.kind == "raised" and isinstance(out.exc, contracts.ContractBroken):
        ctx.fail("contract:" + out.exc.name, "%s: %s" % (what, out.exc.witness))
        return True
    return False


def _typed_start(ctx, start):
    """The start vertex as the library's callers pass it: a Python int, or a numpy scalar out of an index array."""
    name = ctx.rng.choice(["int"] * 5 + ["int64", "uint8", "uint8", "uint16", "int16", "int32", "uint32"])
    if name == "int" or start > np.iinfo(getattr(np, name)).max:
        return start
    ctx.cls("start type|" + name)
    return getattr(np, name)(start)


def check_encode(ctx, case):
    dsw = import_dsw()
    k, start, bits, fast = case["k"], case["start"], case["bits"], case["fast"]
    acc = gens.acc_of(case)
    shuf = table_of(case["table"], k)
    msg = gens.as_message(bits, case["dtype"])
    live = int((G.out_degrees(acc) > 0).sum())
    ref, digits = oracles.ref_encode(bits, acc, start, fast, shuf)
    guard = ArgGuard(message=msg, accessor=acc, shuffles=shuf)
    out = monitored(dsw.encode, encode_budget(len(bits), live), msg, acc, _typed_start(ctx, start), is_faster=fast, shuffles=shuf)
    if guard.changed():
        # writable arguments on purpose: a table silently rewritten for this graph decides differently on the next one
        ctx.fail("argument-modified", "encode changed its %s; k=%d start=%d graph=%s table=%s" % (guard.changed(), k, start, case["arcs"], case["table"]))
    if not _report(ctx, out, "encode"):
        if out.kind != "ok":
            ctx.fail("encode-" + out.kind, "encode %s; reference strand %s" % (out.describe(), ref))
        elif out.value != ref:  # belt and braces: the contract should have fired already
            ctx.fail("encode-differs-uncontracted", "encode returned %r, reference %r" % (out.value, ref))
    nontrivial = _nontrivial(acc, start, ref, shuf)
    ctx.cls("encode|%s|table%d" % ("fast" if fast else "normal", int(shuf is not None)))
    for r in {d for d, _ in digits}:
        ctx.cls("encode|radix%d|%s" % (r, "fast" if fast else "normal"))
    if nontrivial:
        ctx.cls("encode|nontrivial")
    ctx.done("encode", case, nontrivial)


def check_edit_sequence(ctx, case):
    """G2: one accessor object overwritten in place between calls; the contracts judge every encode / decode against the
    reference coder on the *current* content of that object."""
    dsw = import_dsw()
    k, fast = case["k"], case["fast"]
    shuf = table_of(case["table"], k)
    live = G.hex_to_acc(k, case["states"][0]["arcs"])
    trng = __import__("random").Random(len(case["states"]) * 7919 + k)
    for i, st in enumerate(case["states"]):
        live[...] = G.hex_to_acc(k, st["arcs"])
        if shuf is not None and i > 0:
            for _r in range(max(1, len(shuf) // 3)):       # rows of the same table object re-drawn in place
                row = shuf[trng.randrange(len(shuf))]
                perm = row.tolist()
                trng.shuffle(perm)
                row[...] = perm
        bits = case["msgs"][i]
        n_live = int((G.out_degrees(live) > 0).sum())
        out = monitored(dsw.encode, encode_budget(len(bits), n_live), np.array(bits, dtype=int), live, st["start"], is_faster=fast, shuffles=shuf)
        if _report(ctx, out, "encode after the accessor object was overwritten in place (state %d)" % i):
            break
        if out.kind != "ok":
            ctx.fail("encode-" + out.kind, "state %d: encode %s" % (i, out.describe()))
            break
        dec = monitored(dsw.decode, decode_budget(len(out.value), len(bits)), out.value, len(bits), live, st["start"], is_faster=fast, shuffles=shuf)
        if _report(ctx, dec, "decode after the accessor object was overwritten in place (state %d)" % i):
            break
        if dec.kind != "ok" or not bits_equal(dec.value, bits):
            ctx.fail("decode-after-edit", "state %d: decode %s, expected %s" % (i, dec.describe(), bits))
            break
        ctx.evaluations += 1
    ctx.cls("edit sequences (same accessor object overwritten in place)")
    ctx.done("edit_sequence", case, True)


def check_decode_walk(ctx, case):
    dsw = import_dsw()
    k, start, strand, fast = case["k"], case["start"], case["strand"], case["fast"]
    acc = gens.acc_of(case)
    shuf = table_of(case["table"], k)
    digits = oracles.walk_digits(strand, acc, start, shuf)
    if fast:
        if any(d == 3 for d, _ in digits):
            return
        carried = oracles.fast_bits(digits)
        L = len(carried)
        want = carried
        if carried and carried[-1] == 0 and digits and [d for d, _ in digits if d > 1][-1:] == [4] and case["slack"]:
            L, want = L - 1, carried[:-1]
            ctx.cls("decode|fast|L+1 with zero pad")
    else:
        value = oracles.digits_value(digits)
        L = max(value.bit_length(), 0) + case["slack"]
        want = oracles.value_bits(value, L)
        if any(d > 1 and r == 0 for d, r in digits[-1:]):
            ctx.cls("decode|trailing zero digit")
    before = contracts.EVALS["decode.ensure.bits_are_reference"]
    width = ctx.rng.choice([int, int, int, np.int64, np.uint16, np.uint64])(L) if L < 60000 else L
    guard = ArgGuard(accessor=acc, shuffles=shuf)
    out = monitored(dsw.decode, decode_budget(len(strand), L), strand, width, acc, _typed_start(ctx, start), is_faster=fast, shuffles=shuf)
    if guard.changed():
        ctx.fail("argument-modified", "decode changed its %s; k=%d start=%d graph=%s table=%s" % (guard.changed(), k, start, case["arcs"], case["table"]))
    ctx.cls("decode|width type %s" % type(width).__name__)
    if case.get("fam") == "long":
        ctx.cls("decode|walk of more than 2100 bits under the int<->str trap")
    if contracts.EVALS["decode.ensure.bits_are_reference"] == before and out.kind == "ok":
        ctx.fail("contract-bypassed", "decode returned without evaluating its postcondition")
    if not _report(ctx, out, "decode"):
        if out.kind != "ok":
            ctx.fail("decode-" + out.kind, "decode of walk %s %s; reference bits %s" % (strand, out.describe(), want))
        elif not bits_equal(out.value, want):
            ctx.fail("decode-differs-uncontracted", "decode returned %r, reference %r" % (out.value, want))
    nontrivial = _nontrivial(acc, start, strand, shuf)
    ctx.cls("decode|%s|table%d" % ("fast" if fast else "normal", int(shuf is not None)))
    if nontrivial:
        ctx.cls("decode|nontrivial")
    ctx.done("decode_walk", case, nontrivial)


def check_repo_tests(ctx, case):
    """The repository's own coding tests, in-process, with the contracts on (they import the contracted functions)."""
    import pytest
    before = sum(contracts.EVALS.values())
    files = [os.path.join(REPO, f) for f in case["files"]]
    files = [f for f in files if os.path.exists(f)]
    if not files:
        ctx.cls("repo-tests|missing")
        return
    rc = pytest.main(["-q", "-x", "-p", "no:cacheprovider", "--no-header", "-W", "ignore"] + files)
    n = sum(contracts.EVALS.values()) - before
    ctx.mon("contract-evaluations-inside-repo-tests", n)
    ctx.cls("repo-tests|run")
    if rc != 0:
        ctx.fail("repo-tests-under-contracts", "pytest exit %s on %s with the encode/decode contracts installed" % (rc, case["files"]))
    ctx.done("repo_tests", case, n > 0)


CHECKS = {"edit_sequence": check_edit_sequence, "encode": check_encode, "decode_walk": check_decode_walk, "repo_tests": check_repo_tests}


def floors(agg, tier):
    out = []
    c, m = agg["classes"], agg["monitors"]
    if m.get("contract-evaluations:encode.ensure.strand_is_reference", 0) < 1000:
        out.append("encode contract evaluated %d times" % m.get("contract-evaluations:encode.ensure.strand_is_reference", 0))
    if m.get("contract-evaluations:decode.ensure.bits_are_reference", 0) < 1000:
        out.append("decode contract evaluated %d times" % m.get("contract-evaluations:decode.ensure.bits_are_reference", 0))
    for name, need in (("encode|nontrivial", 500), ("decode|nontrivial", 300), ("encode|radix3|normal", 100),
                       ("encode|radix4|fast", 100), ("encode|radix2|fast", 100), ("encode|radix1|normal", 100),
                       ("decode|trailing zero digit", 50), ("decode|fast|table1", 50), ("decode|width type uint16", 100), ("start type|uint8", 200), ("decode|walk of more than 2100 bits under the int<->str trap", 2), ("start type|uint16", 200),
                       ("edit sequences (same accessor object overwritten in place)", 100)):
        if c.get(name, 0) < need:
            out.append("%s observed %d < %d" % (name, c.get(name, 0), need))
    if m.get("contract-evaluations-inside-repo-tests", 0) < (4 if tier == "quick" else 1000):
        out.append("repository tests ran %d contract evaluations" % m.get("contract-evaluations-inside-repo-tests", 0))
    return out
