"""C19 - arc removal keeps both graph views in step over any call sequence (DESIGN.md section 4, C19)."""
import ast
import collections
import copy

import numpy as np

from vlib import alias, clock, graphs as G, gens
from vlib.base import import_dsw
from vlib.coding import monitored
from vlib.proxies import CountingAccessor
from props._repair import generated_graph

ID = "C19"
LEVEL = "exploration"
TECHNIQUE = ("history recorder + offline checker over sequences of real remove_nasty_arc calls: per call the pre/post accessor diff "
             "(with an array write log), the library's own score on a copy of the pre-call latter map, that score against an independent set-based scorer, and equality of the two "
             "views are checked; a sys.monitoring line probe counts the 'vertex lost its last arc' site")
LEVEL_TEXT = ("Held on every returning call of every removal history of this run (generated graphs of order 2..3, order 4 with "
              "bounded history length in the quick tier; 4 insertion/deletion flag combinations; histories run until the first "
              "call that raises). Sampled over graphs; each history is checked step by step.")
LEVEL_NOTE = ("The removed arc is judged against calculate_intersection_score evaluated on a deep copy of the pre-call latter map "
              "(the property defines the arc by the library's own score). Calls that raise are not judged; the history ends there.")
PLAN = {"quick": dict(shards=16, budget=130), "thorough": dict(shards=16, budget=500)}
RULE = ("History: G = generated graph (k = 2..4, t = 1..3), views (accessor, latter map); remove_nasty_arc(views, flags) repeated on "
        "the returned views until it raises. Per returning call: exactly one accessor entry changed, from an arc to -1; its score "
        "in calculate_intersection_score(copy of pre-call map, k, flags) equals the maximum; the reported (former, latter) is that "
        "entry; accessor_to_latter_map(accessor) == latter map (keys/values as ints); score matrix has the accessor's shape and is "
        "positive only on existing arcs. Non-trivial (per call): the pre-call graph has at least two different positive scores, so 'the maximum' is a real choice; "
        "distinct = hash of (pre-call graph, flags). Histories of >= 5 calls in which a vertex lost its last arc have a floor."
        ' Also: the score matrix equals an independent set-based computation of the documented breadth-first definition; hand-built latter maps with follower lists in arbitrary order, Fortran-ordered and strided accessors; all flags passed positionally in the documented order.')


def setup(ctx):
    import_dsw()
    import dsw.spiderweb as sw
    clock.install(lines=True)
    dels = clock.find_lines(sw.remove_nasty_arc, lambda n: isinstance(n, ast.Delete))
    for rank, ln in enumerate(dels):
        clock.add_probe(sw.remove_nasty_arc, ln, "remove_nasty_arc:del#%d" % rank)


def finish(ctx):
    import dsw.spiderweb as sw
    import dsw.graphized as gz
    for fn in (sw.remove_nasty_arc, gz.calculate_intersection_score):
        seen, total = clock.coverage_of(fn)
        ctx.setadd("executed-lines:" + fn.__name__, seen)
        ctx.notes["statement-lines:" + fn.__name__] = len(total)
    for k, v in clock.S.probe_hits.items():
        ctx.mon("probe-hits:" + k, v)


def generate(ctx):
    rng = ctx.rng
    dsw = import_dsw()
    for _ in range(ctx.pick(32, 400)):
        k = rng.choice(ctx.pick([2, 2, 2, 3, 3, 4], [2, 2, 3, 3, 3, 4]))
        g = generated_graph(dsw, rng, k)
        if g is None:
            continue
        acc, t, fam = g
        yield "history", dict(gens.graph_case(acc, k), t=t, fam=fam, ins=rng.random() < 0.5, dele=rng.random() < 0.5,
                              max_steps=(10 ** 6 if k <= 3 else ctx.pick(25, 250)),
                              views=rng.choice(["library", "library", "hand-built map", "defaultdict map", "fortran accessor", "strided accessor"]))


def _norm(lm):
    """The graph a latter map describes: follower *sets* per vertex (list order carries no meaning)."""
    return {int(a): sorted(int(x) for x in b) for a, b in lm.items()}


def ref_scores(lm, k, ins, dele):
    """The intersection score by its documented definition (breadth-first leaf sets of depth k - 1, sizes of pairwise
    unions), computed with Python sets only - nothing from dsw."""
    n = 4 ** k
    out = np.zeros((n, 4), dtype=int)
    memo = {}

    def leaves(v):
        got = memo.get(v)
        if got is None:
            level = {v}
            for _ in range(k - 1):
                nxt = set()
                for u in level:
                    nxt.update(lm.get(u, ()))
                level = nxt
            got = memo[v] = frozenset(level)
        return got

    for cur, followers in lm.items():
        branches = [leaves(w) for w in followers]
        for a in range(len(followers)):
            for b in range(a + 1, len(followers)):
                sc = len(branches[a] | branches[b])
                out[cur, followers[a] % 4] += sc
                out[cur, followers[b] % 4] += sc
        if ins:
            for a, w in enumerate(followers):
                for x in lm.get(w, ()):
                    out[cur, w % 4] += len(branches[a] | leaves(x))
        if dele:
            own = leaves(cur)
            for a, w in enumerate(followers):
                out[cur, w % 4] += len(branches[a] | own)
    return out


def _step(ctx, dsw, k, acc, lm, ins, dele, steps, where):
    """One remove_nasty_arc call on (acc, lm) with all per-call checks.  Returns (status, acc', lm', lost_last, identical)."""
    bigb = 10 ** 9
    pre_acc = np.array(acc)
    pre_lm = copy.deepcopy(lm)
    proxy = CountingAccessor(acc) if acc.flags.c_contiguous else acc
    sc = monitored(dsw.calculate_intersection_score, bigb, copy.deepcopy(pre_lm), observed_length=k, has_insertion=ins, has_deletion=dele)
    out = monitored(dsw.remove_nasty_arc, bigb, proxy, lm, steps, ins, dele)
    sub = dict(k=k, arcs=G.acc_to_hex(pre_acc), ins=ins, dele=dele)
    if out.kind != "ok":
        ctx.cls("history ended by %s" % (type(out.exc).__name__ if out.kind == "raised" else out.kind))
        if out.kind == "budget":
            ctx.fail("removal-no-return", "remove_nasty_arc did not return; %s" % where, "step", sub)
        return "ended", None, None, 0, True
    lost = 0
    meaningful = False
    try:
        r_acc, r_lm, arc, _scores = out.value
    except Exception:
        ctx.fail("malformed-result", "remove_nasty_arc returned %r; %s" % (out.value, where), "step", sub)
        return "broken", None, None, 0, True
    post = np.array(np.asarray(r_acc))
    if post.shape != pre_acc.shape:
        ctx.fail("accessor-shape-changed", "returned accessor has shape %s; %s" % (post.shape, where), "step", sub)
        return "broken", None, None, 0, True
    diff = np.argwhere(post != pre_acc)
    if len(diff) != 1:
        ctx.fail("not-exactly-one-entry", "%d accessor entries changed (%s); %s" % (len(diff), diff[:4].tolist(), where), "step", sub)
    else:
        u, j = int(diff[0][0]), int(diff[0][1])
        if pre_acc[u, j] < 0 or post[u, j] != -1:
            ctx.fail("changed-entry-not-an-arc-removal", "entry (%d,%d) went %d -> %d; %s" % (u, j, pre_acc[u, j], post[u, j], where), "step", sub)
        else:
            try:
                reported = (int(arc[0]), int(arc[1]))
            except Exception:
                reported = None
            if reported != (u, int(pre_acc[u, j])):
                ctx.fail("reported-arc-differs", "reported arc %r but the removed entry is %d -> %d; %s" % (arc, u, pre_acc[u, j], where), "step", sub)
            if sc.kind == "ok":
                scores = np.asarray(sc.value)
                if scores.shape != pre_acc.shape:
                    ctx.fail("score-shape", "calculate_intersection_score has shape %s, accessor %s; %s" % (scores.shape, pre_acc.shape, where), "step", sub)
                else:
                    meaningful = len(set(scores[scores > 0].tolist())) >= 2
                    ref = ref_scores({int(a): [int(x) for x in b] for a, b in pre_lm.items()}, k, ins, dele)
                    ctx.mon("score matrices compared with the set-based reference")
                    if not np.array_equal(ref, scores):
                        w = np.argwhere(ref != scores)[0].tolist()
                        ctx.fail("score-differs-from-definition", "calculate_intersection_score gives %d at %s, the breadth-first leaf-set definition gives %d; %s" % (
                            scores[tuple(w)], w, ref[tuple(w)], where), "step", sub)
                    elif ref[u, j] != ref.max():
                        ctx.fail("removed-arc-not-maximal", "removed arc %d -> %d has reference score %d, maximum is %d; %s" % (
                            u, pre_acc[u, j], ref[u, j], ref.max(), where), "step", sub)
                    if ((scores > 0) & (pre_acc < 0)).any():
                        w = np.argwhere((scores > 0) & (pre_acc < 0))[0].tolist()
                        ctx.fail("score-on-missing-arc", "positive score at %s where no arc exists; %s" % (w, where), "step", sub)
                    if scores[u, j] != scores.max():
                        ctx.fail("removed-arc-not-maximal", "removed arc %d -> %d has score %d, maximum is %d; %s" % (
                            u, pre_acc[u, j], scores[u, j], scores.max(), where), "step", sub)
            else:
                ctx.cls("score call did not return (not judged)")
            if (post[u] < 0).all():
                lost = 1
    if isinstance(proxy, CountingAccessor) and len(proxy.write_log) != 1:
        ctx.cls("accessor writes per call != 1 (evidence only)")
    view = monitored(dsw.accessor_to_latter_map, bigb, post)
    if view.kind == "ok":
        try:
            same = _norm(view.value) == _norm(r_lm)
        except Exception:
            same = False
        if not same:
            a, b = _norm(view.value), (_norm(r_lm) if isinstance(r_lm, dict) else {})
            bad = sorted(set(a) ^ set(b)) or [x for x in a if a[x] != b.get(x)]
            ctx.fail("views-out-of-step", "latter map and accessor disagree after the call (vertices %s); %s" % (bad[:5], where), "step", sub)
    ctx.done("step", sub, meaningful)
    nxt = np.array(post) if acc.flags.c_contiguous else r_acc      # keep the unusual memory layout through the history
    if not acc.flags.c_contiguous and not isinstance(r_acc, np.ndarray):
        nxt = np.array(post)
    return "ok", nxt, r_lm, lost, (r_acc is proxy and r_lm is lm)


def check_step(ctx, case):
    dsw = import_dsw()
    acc = gens.acc_of(case)
    _step(ctx, dsw, case["k"], acc, dsw.accessor_to_latter_map(acc), case["ins"], case["dele"], 0,
          "single step on k=%d graph=%s" % (case["k"], case["arcs"]))


def check_history(ctx, case):
    dsw = import_dsw()
    k = case["k"]
    acc = gens.acc_of(case)
    ins, dele = case["ins"], case["dele"]
    flags = "insertion=%s deletion=%s" % (ins, dele)
    lm = dsw.accessor_to_latter_map(acc)
    views = case.get("views", "library")
    if views == "hand-built map":      # the same graph, keys and follower lists in arbitrary order, plain ints
        keys = [int(a) for a in lm]
        ctx.rng.shuffle(keys)
        hand = {}
        for a in keys:
            row = [int(x) for x in lm[a]]
            ctx.rng.shuffle(row)
            hand[a] = row
        lm = hand
    elif views == "defaultdict map":   # a dict subclass that grows an entry on every failed lookup: a probing read becomes a write
        lm = collections.defaultdict(list, {int(a): [int(x) for x in b] for a, b in lm.items()})
    elif views == "fortran accessor":  # same values, column-major memory
        acc = np.asfortranarray(acc)
    elif views == "strided accessor":  # a non-contiguous view of a wider table
        wide = np.full((acc.shape[0], 8), -1, dtype=acc.dtype)
        wide[:, ::2] = acc
        acc = wide[:, ::2]
    if ctx.rng.random() < 0.4:
        for v in range(len(acc)) if len(acc) <= 64 else ctx.rng.sample(range(len(acc)), 16):
            alias.caller_edit(dsw.obtain_latters(current=v, observed_length=k), ctx.rng)
            alias.caller_edit(dsw.obtain_latters(v, k), ctx.rng)
            alias.caller_edit(dsw.obtain_formers(current=v, observed_length=k), ctx.rng)
        ctx.cls("history preceded by edited successor lists")
    ctx.cls("views|" + views)
    steps = lost_last = 0
    ident = True
    while steps < case["max_steps"]:
        where = "step %d of the history on k=%d graph=%s (%s)" % (steps, k, case["arcs"], flags)
        status, acc2, lm2, lost, same = _step(ctx, dsw, k, acc, lm, ins, dele, steps, where)
        if status != "ok":
            break
        steps += 1
        lost_last += lost
        ident = ident and same
        acc, lm = acc2, lm2
        if ctx.time_up():
            ctx.cls("history cut by the time cap")
            break
    ctx.cls("flags|%s" % flags)
    ctx.cls("k|%d" % k)
    ctx.cls("views handed back are the objects passed in" if ident else "views handed back are new objects")
    ctx.obs("longest_history", steps)
    if lost_last:
        ctx.cls("histories in which a vertex lost its last arc")
    if steps >= 5 and lost_last:
        ctx.cls("histories of >= 5 calls in which a vertex lost its last arc")


CHECKS = {"history": check_history, "step": check_step}


def floors(agg, tier):
    out = []
    c = agg["classes"]
    for f in ("insertion=True deletion=True", "insertion=True deletion=False", "insertion=False deletion=True", "insertion=False deletion=False"):
        if c.get("flags|" + f, 0) < 20:
            out.append("flag combination %s observed %d < 20" % (f, c.get("flags|" + f, 0)))
    for v in ("hand-built map", "fortran accessor", "strided accessor"):
        if c.get("views|" + v, 0) < 20:
            out.append("histories with %s: %d < 20" % (v, c.get("views|" + v, 0)))
    if c.get("histories in which a vertex lost its last arc", 0) < 50:
        out.append("histories with a vertex losing its last arc: %d < 50" % c.get("histories in which a vertex lost its last arc", 0))
    if agg["evaluations"] < 3000:
        out.append("only %d removal calls were checked" % agg["evaluations"])
    if not any(k.startswith("probe-hits:remove_nasty_arc:del") for k in agg["monitors"]):
        out.append("the delete sites of remove_nasty_arc were never observed by the line probes")
    return out
