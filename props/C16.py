"""C16 - bit, number and DNA conversions are exact inverses at any length (DESIGN.md section 4, C16)."""
import numpy as np

from vlib import alias, clock, contracts, graphs as G, gens
from vlib.base import import_dsw
from vlib.coding import monitored

ID = "C16"
LEVEL = "exploration"
TECHNIQUE = ("runtime contracts (icontract postconditions) on the real bit_to_number / number_to_bit / dna_to_number / "
             "number_to_dna against Python int(…, 2) and base-4 Horner, plus client-side round-trip and path-agreement checks "
             "at boundary widths (around 32 and 64 bits, 0, 1000+)")
LEVEL_TEXT = ("Held on every generated bit array / DNA string / number of this run: round trips at the original width, agreement "
              "of the string-typed and integer-typed paths, left padding; widths 0,1,2,7,8,9,31-33,63-65,100,257,1000 (4096 in "
              "the thorough tier) and random widths 0..200. Sampled; the contracts also fire on the internal uses by encode, decode, set_vt and repair_dna.")
LEVEL_NOTE = ("Trusts Python int. The integer path is driven with Python ints / lists (documented types; number_to_bit rejects "
              "numpy integers by design), the string path also with numpy arrays as encode passes them.")
PLAN = {"quick": dict(shards=17, budget=130), "thorough": dict(shards=17, budget=300)}
SPECIAL_SHARD = True  # the last shard runs files of the repository's own suite in-process under the contracts
RULE = ("bit arrays / DNA strings of the widths above in the classes all-zero, all-one, leading zeros, single 1, random; numbers "
        "0, 1, 2^L-1 (4^L-1), random below capacity: number_to_bit(bit_to_number(b), len(b)) == b, number_to_dna(dna_to_number(s)"
        ", len(s)) == s, is_string=True and False give the same value, number_to_bit(x, L) / number_to_dna(x, L) for x below "
        "capacity convert back to x and are left-padded with 0 / A. Contracts: each function's result equals the int oracle. "
        "Non-trivial: width >= 20 (multi-digit carries in the string path); distinct = hash of the case."
        ' Also: widths 15-17, 26-27, 52-54, 127-129 and random 0..200, bit / DNA strings whose prefix value is a limb number, values beyond 640 decimal digits under the int<->str trap, and number_to_bit repeated after its result was scrambled.')

WIDTHS = [0, 1, 2, 7, 8, 9, 15, 16, 17, 26, 27, 31, 32, 33, 52, 53, 54, 63, 64, 65, 100, 127, 128, 129, 257]


def _val2(bits):
    v = 0
    for b in bits:
        v = v * 2 + int(b)
    return v


def _val4(s):
    v = 0
    for c in s:
        v = v * 4 + "ACGT".index(c)
    return v


def bit_value_is_exact(bit_array, is_string, result):
    want = _val2(bit_array)
    return (isinstance(result, str) and result == str(want)) if is_string else (not isinstance(result, str) and int(result) == want)


def bits_are_exact(decimal_number, bit_length, result):
    x = int(decimal_number)
    if x >= 2 ** bit_length:
        return True  # outside the property: number does not fit the width
    return len(result) == bit_length and all(int(b) in (0, 1) for b in result) and _val2(result) == x


def dna_value_is_exact(dna_sequence, is_string, result):
    want = _val4(dna_sequence)
    return (isinstance(result, str) and result == str(want)) if is_string else (not isinstance(result, str) and int(result) == want)


def dna_is_exact(decimal_number, dna_length, result):
    x = int(decimal_number)
    if dna_length < 0 or x >= 4 ** dna_length:
        return True
    return isinstance(result, str) and len(result) == dna_length and all(c in "ACGT" for c in result) and _val4(result) == x


def setup(ctx):
    import_dsw()
    import dsw.operation as op
    clock.install(lines=False)
    contracts.install(op.bit_to_number, "bit_to_number", ensures=[bit_value_is_exact])
    contracts.install(op.number_to_bit, "number_to_bit", ensures=[bits_are_exact])
    contracts.install(op.dna_to_number, "dna_to_number", ensures=[dna_value_is_exact])
    contracts.install(op.number_to_dna, "number_to_dna", ensures=[dna_is_exact])


def finish(ctx):
    for k, v in contracts.EVALS.items():
        ctx.mon("contract-evaluations:" + k, v)
    ctx.notes["contract_backend"] = contracts.BACKEND


def _symbols(rng, L, kind, base):
    top = base - 1
    if kind == "zeros":
        return [0] * L
    if kind == "ones":
        return [top] * L
    if kind == "leadzero":
        z = rng.randint(1, L) if L else 0
        return [0] * z + [rng.randint(0, top) for _ in range(L - z)]
    if kind == "single":
        out = [0] * L
        if L:
            out[rng.randrange(L)] = rng.randint(1, top)
        return out
    return [rng.randint(0, top) for _ in range(L)]


def generate(ctx):
    rng = ctx.rng
    if ctx.special:
        yield "repo_tests", dict(files=ctx.pick(['tests/test_number_vs_binary_message.py', 'tests/test_number_vs_dna_sequence.py'], ['tests/test_number_vs_binary_message.py', 'tests/test_number_vs_dna_sequence.py', 'tests/test_coding.py', 'tests/test_generating.py']))
        return
    for _ in range(ctx.pick(120, 1000)):
        # prefixes whose value is a 'limb number' (blocks landing exactly on 10^b under x2 / x4), followed by a few more symbols
        v = int(gens.limb_number(rng, 5))
        bits = [int(c) for c in bin(v)[2:]] + [rng.randint(0, 1) for _ in range(rng.randint(1, 3))]
        yield "bits", dict(bits=bits, kind="limbs", container="list")
        d = []
        x = v
        while x:
            d.append(x % 4)
            x //= 4
        yield "dna", dict(s="".join("ACGT"[q] for q in reversed(d)) + gens.random_dna(rng, rng.randint(1, 2)), kind="limbs")
    for _ in range(ctx.pick(6, 40)):
        # the integer-typed path at widths far beyond the string path's reach: 4^e, 4^e +- 1, 2*4^e for e up to 3000
        e = rng.randint(1400, 3000)
        x = rng.choice([4 ** e, 4 ** e + 1, 4 ** e - 1, 2 * 4 ** e, 4 ** e + 4 ** (e - 25)])
        yield "number_dna_int", dict(x=hex(x), L=e + rng.choice([1, 2, 5]))
    if ctx.shard < ctx.pick(5, 16):
        # widths whose values exceed 640 decimal digits (int<->str trap)
        L = rng.randint(2150, 2400)
        yield "bits", dict(bits=_symbols(rng, L, "random", 2), kind="beyond-640-digits", container="list")
        yield "dna", dict(s="".join("ACGT"[x] for x in _symbols(rng, L // 2, "random", 4)), kind="beyond-640-digits")
        yield "number_dna", dict(x=str(rng.randrange(4 ** (L // 2 - 1), 4 ** (L // 2))), L=L // 2, which="beyond-640-digits")
        yield "number_bits", dict(x=str(rng.randrange(2 ** (L - 1), 2 ** L)), L=L, which="beyond-640-digits")
    for _ in range(ctx.pick(3, 12)):
        # byte-typed bit arrays (numpy.unpackbits output) whose number of ones is a multiple of 256 (and of 128)
        L = rng.choice([256, 300, 512, 520, 640])
        ones = rng.choice([m for m in (128, 256, 384, 512) if m <= L])
        bits = [1] * ones + [0] * (L - ones)
        rng.shuffle(bits)
        yield "bits", dict(bits=bits, kind="ones-multiple-of-128", container=rng.choice(["uint8", "uint8", "int8"]))
    for _ in range(ctx.pick(5, 30)):
        yield "via_library", dict(k=rng.choice([2, 3]), bits=[rng.randint(0, 1) for _ in range(rng.choice([8, 33, 64, 120]))])
    widths = WIDTHS + ctx.pick([300, 1000], [1000, 2000, 4096])
    for _ in range(ctx.pick(400, 3000)):
        L = rng.choice(widths if rng.random() < 0.97 else widths[-1:]) if rng.random() < 0.75 else rng.randint(0, 200)
        if L > 300 and rng.random() < ctx.pick(0.96, 0.85):
            L = rng.choice(WIDTHS)
        kind = rng.choice(["zeros", "ones", "leadzero", "single", "random", "random"])
        yield "bits", dict(bits=_symbols(rng, L, kind, 2), kind=kind, container=rng.choice(["list", "list", "int64", "int8", "uint8"]))
        Ld = L if L <= 300 else L // 2
        yield "dna", dict(s="".join("ACGT"[x] for x in _symbols(rng, Ld, kind, 4)), kind=kind)
        which = rng.choice(["zero", "one", "max", "random", "pow"])
        for base, name in ((2, "number_bits"), (4, "number_dna")):
            Lw = L if base == 2 or L <= 300 else L // 2
            cap = base ** Lw
            x = {"zero": 0, "one": min(1, cap - 1), "max": cap - 1, "random": rng.randrange(cap),
                 "pow": min(cap - 1, base ** rng.randint(0, max(Lw - 1, 0)))}[which]
            yield name, dict(x=str(x), L=Lw, which=which)


def _bad(ctx, out, what):
    if out.kind == "raised" and isinstance(out.exc, contracts.ContractBroken):
        ctx.fail("contract:" + out.exc.name, "%s: %s" % (what, out.exc.witness))
        return True
    if out.kind != "ok":
        ctx.fail(what.split("(")[0] + "-" + out.kind, "%s %s" % (what, out.describe()))
        return True
    return False


def check_bits(ctx, case):
    dsw = import_dsw()
    bits, L = case["bits"], len(case["bits"])
    arr = list(bits) if case["container"] == "list" else np.array(bits, dtype=case["container"])
    want = _val2(bits)
    B = 40 * (L + 4) * (L + 4) + 5000
    a = monitored(dsw.bit_to_number, B, arr, is_string=True)
    if not _bad(ctx, a, "bit_to_number(%d bits, is_string=True)" % L):
        if a.value != str(want):
            ctx.fail("bit-value-differs", "bit_to_number(%s..., True) = %s, exact %s" % (bits[:40], a.value, want))
        back = monitored(dsw.number_to_bit, B, a.value, L)
        if not _bad(ctx, back, "number_to_bit(str, %d)" % L) and [int(x) for x in back.value] != [int(b) for b in bits]:
            ctx.fail("bit-round-trip", "number_to_bit(bit_to_number(b), %d) != b for b = %s..." % (L, bits[:48]))
        elif back.kind == "ok" and L <= 300 and ctx.rng.random() < 0.3:
            # G1: the caller flips bits in the list it was handed (error injection); the same conversion must not change
            checked, same, second = alias.repeat_after_scramble(dsw.number_to_bit, (a.value, L), {}, back.value)
            if checked:
                ctx.cls("conversion repeated after its result was scrambled")
                if not same:
                    ctx.fail("answer-changes-after-result-was-edited", "number_to_bit(%s..., %d) called again after the caller edited the first result in place returns %r" % (
                        a.value[:30], L, second if not isinstance(second, list) else second[:24]))
    if L <= 300 and ctx.rng.random() < 0.3:
        import contextlib
        import io
        for is_string in (True, False):
            with contextlib.redirect_stdout(io.StringIO()):
                v = monitored(dsw.bit_to_number, 2 * B, list(bits), is_string=is_string, verbose=True)
            if not _bad(ctx, v, "bit_to_number(%d bits, is_string=%s, verbose=True)" % (L, is_string)) and int(v.value) != want:
                ctx.fail("progress-output-changes-value", "bit_to_number(..., is_string=%s, verbose=True) = %s, exact %s (L=%d)" % (is_string, str(v.value)[:40], want, L))
        ctx.cls("bits|with progress output")
    if case["container"] == "list":
        b = monitored(dsw.bit_to_number, B, list(bits), is_string=False)
        if not _bad(ctx, b, "bit_to_number(%d bits, is_string=False)" % L):
            if isinstance(b.value, str) or int(b.value) != want:
                ctx.fail("paths-disagree", "bit_to_number(..., False) = %r but the string path gives %s (L=%d)" % (b.value, want, L))
            elif type(b.value) is int:
                back = monitored(dsw.number_to_bit, B, b.value, L)
                if not _bad(ctx, back, "number_to_bit(int, %d)" % L) and [int(x) for x in back.value] != [int(x) for x in bits]:
                    ctx.fail("bit-round-trip-int-path", "number_to_bit(int, %d) does not return the original bits %s..." % (L, bits[:48]))
    ctx.cls("bits|%s" % case["kind"])
    ctx.cls("bits|width %s" % (L if L <= 65 else ">65"))
    ctx.cls("bits|container %s" % case["container"])
    ctx.obs("max_bits", L)
    ctx.done("bits", case if L <= 80 else dict(L=L, h=hash(tuple(bits)), kind=case["kind"], c=case["container"]), L >= 20,
             sample=dict(bits="".join(map(str, bits[:64])), width=L, kind=case["kind"]))


def check_dna(ctx, case):
    dsw = import_dsw()
    s, L = case["s"], len(case["s"])
    want = _val4(s)
    B = 60 * (L + 4) * (L + 4) + 5000
    a = monitored(dsw.dna_to_number, B, s, is_string=True)
    if not _bad(ctx, a, "dna_to_number(%d nt, is_string=True)" % L):
        if a.value != str(want):
            ctx.fail("dna-value-differs", "dna_to_number(%r..., True) = %s, exact %s" % (s[:40], a.value, want))
        back = monitored(dsw.number_to_dna, B, a.value, L)
        if not _bad(ctx, back, "number_to_dna(str, %d)" % L) and back.value != s:
            ctx.fail("dna-round-trip", "number_to_dna(dna_to_number(s), %d) = %r != s = %r" % (L, back.value[:48], s[:48]))
    b = monitored(dsw.dna_to_number, B, s, is_string=False)
    if not _bad(ctx, b, "dna_to_number(%d nt, is_string=False)" % L):
        if isinstance(b.value, str) or int(b.value) != want:
            ctx.fail("paths-disagree", "dna_to_number(..., False) = %r but the exact value is %s (L=%d)" % (b.value, want, L))
        elif type(b.value) is int:
            back = monitored(dsw.number_to_dna, B, b.value, L)
            if not _bad(ctx, back, "number_to_dna(int, %d)" % L) and back.value != s:
                ctx.fail("dna-round-trip-int-path", "number_to_dna(int, %d) = %r != %r" % (L, back.value[:48], s[:48]))
    ctx.cls("dna|%s" % case["kind"])
    ctx.cls("dna|width %s" % (L if L <= 33 else ">33"))
    ctx.done("dna", case if L <= 80 else dict(L=L, h=hash(s), kind=case["kind"]), L >= 10, sample=dict(s=s[:64], width=L))


def _number(ctx, case, base):
    dsw = import_dsw()
    x, L = int(case["x"]), case["L"]
    to, fro, pad = (dsw.number_to_bit, dsw.bit_to_number, 0) if base == 2 else (dsw.number_to_dna, dsw.dna_to_number, "A")
    B = 60 * (L + 4) * (L + 4) + 5000
    for arg, path in ((str(x), "string"), (x, "int")):
        r = monitored(to, B, arg, L)
        name = "%s(%s %s..., %d)" % (to.__name__, path, str(x)[:30], L)
        if _bad(ctx, r, name):
            continue
        rendered = list(r.value) if base == 2 else r.value
        if len(rendered) != L:
            ctx.fail("wrong-width", "%s returned %d symbols" % (name, len(rendered)))
            continue
        digits = len(rendered) - (x.bit_length() if base == 2 else (x.bit_length() + 1) // 2)
        if any(sym != pad for sym in rendered[:max(digits, 0)]):
            ctx.fail("not-left-padded", "%s = %s... is not left-padded with %r" % (name, rendered[:24], pad))
        back = monitored(fro, B, rendered, is_string=(path == "string"))
        if not _bad(ctx, back, "%s(rendering of %s...)" % (fro.__name__, str(x)[:30])) and int(back.value) != x:
            ctx.fail("number-round-trip", "%s then %s gives %s, expected %s (width %d)" % (to.__name__, fro.__name__, str(back.value)[:40], str(x)[:40], L))
    ctx.cls("number|base %d|%s" % (base, case["which"]))
    ctx.done("number_bits" if base == 2 else "number_dna", case, L >= (20 if base == 2 else 10))


def check_number_dna_int(ctx, case):
    dsw = import_dsw()
    x, L = int(case["x"], 16), case["L"]
    r = monitored(dsw.number_to_dna, 400 * L + 5000, x, L)
    if not _bad(ctx, r, "number_to_dna(int of %d bits, %d)" % (x.bit_length(), L)):
        if not (isinstance(r.value, str) and len(r.value) == L and _val4(r.value) == x):
            ctx.fail("number-round-trip", "number_to_dna(int ~4^%d, %d) does not convert back (length %d)" % (x.bit_length() // 2, L, len(r.value)))
        else:
            back = monitored(dsw.dna_to_number, 400 * L + 5000, r.value, is_string=False)
            if not _bad(ctx, back, "dna_to_number(%d nt, is_string=False)" % L) and int(back.value) != x:
                ctx.fail("number-round-trip", "dna_to_number(number_to_dna(x)) != x for x ~ 4^%d" % (x.bit_length() // 2))
    ctx.cls("number|integer path beyond 1400 nt")
    ctx.done("number_dna_int", dict(bits=x.bit_length(), L=L, h=hash(x)), True, sample=dict(x="~4^%d" % (x.bit_length() // 2), L=L))


def check_number_bits(ctx, case):
    _number(ctx, case, 2)


def check_number_dna(ctx, case):
    _number(ctx, case, 4)


def check_via_library(ctx, case):
    """The contracts also guard the conversions' internal use (encode/decode, set_vt, find_vertices, repair_dna)."""
    dsw = import_dsw()
    before = sum(contracts.EVALS.values())
    k = case["k"]
    acc = G.complete(k)

    def drive():
        s, chk = dsw.encode(np.array(case["bits"]), acc, 0, vt_length=6)
        dsw.decode(s, len(case["bits"]), acc, 0, vt_check=chk)
        dsw.find_vertices(k, dsw.LocalBioFilter(observed_length=k, max_homopolymer_runs=1))
        dsw.repair_dna(s[:3] + ("A" if s[3:4] != "A" else "C") + s[4:], acc, 0, k, has_indel=True)
        return True

    out = monitored(drive, 10 ** 8)
    if out.kind == "raised" and isinstance(out.exc, contracts.ContractBroken):
        ctx.fail("contract:" + out.exc.name, "inside a library call: %s" % out.exc.witness)
    ctx.mon("contract-evaluations-inside-library-calls", sum(contracts.EVALS.values()) - before)
    ctx.done("via_library", case, True)


def check_repo_tests(ctx, case):
    """The repository's own tests, in-process, with this property's contracts installed."""
    from vlib.coding import run_repo_tests
    rc, n = run_repo_tests(ctx, case["files"])
    ctx.mon("contract-evaluations-inside-repo-tests", n)
    if rc is None:
        ctx.cls("repo-tests|missing")
        return
    ctx.cls("repo-tests|run")
    if rc != 0:
        ctx.fail("repo-tests-under-contracts", "pytest exit %s on %s with the contracts installed (a contract fired inside the repository's own tests, or a test failed)" % (rc, case["files"]))
    ctx.done("repo_tests", case, n > 0)


CHECKS = {"repo_tests": check_repo_tests, "number_dna_int": check_number_dna_int, "bits": check_bits, "dna": check_dna, "number_bits": check_number_bits, "number_dna": check_number_dna,
          "via_library": check_via_library}


def floors(agg, tier):
    out = []
    if agg["monitors"].get("contract-evaluations-inside-repo-tests", 0) < (10 if tier == "quick" else 10):
        out.append("repository tests ran %d contract evaluations" % agg["monitors"].get("contract-evaluations-inside-repo-tests", 0))
    c, m = agg["classes"], agg["monitors"]
    for name, need in (("number|integer path beyond 1400 nt", 50), ("bits|with progress output", 300), ("conversion repeated after its result was scrambled", 200), ("bits|limbs", 500), ("dna|limbs", 500),
                       ("bits|beyond-640-digits", 3), ("dna|beyond-640-digits", 3), ("bits|ones-multiple-of-128", 30), ("bits|container uint8", 500)):
        if c.get(name, 0) < need:
            out.append("%s observed %d < %d" % (name, c.get(name, 0), need))
    for fn in ("bit_to_number", "number_to_bit", "dna_to_number", "number_to_dna"):
        key = [x for x in m if x.startswith("contract-evaluations:%s." % fn)]
        if not key or m[key[0]] < 5000:
            out.append("%s contract evaluated %d times" % (fn, m[key[0]] if key else 0))
    for w in (0, 1, 31, 32, 33, 63, 64, 65, ">65"):
        if c.get("bits|width %s" % w, 0) < 30:
            out.append("bit width %s observed %d < 30" % (w, c.get("bits|width %s" % w, 0)))
    for kind in ("zeros", "leadzero", "ones"):
        if c.get("bits|" + kind, 0) < 100 or c.get("dna|" + kind, 0) < 100:
            out.append("class %s observed %d / %d" % (kind, c.get("bits|" + kind, 0), c.get("dna|" + kind, 0)))
    if m.get("contract-evaluations-inside-library-calls", 0) < 100:
        out.append("contracts evaluated %d times inside library calls" % m.get("contract-evaluations-inside-library-calls", 0))
    return out
