"""C06 - decoding accepts exactly the strands that are walks of the graph (DESIGN.md section 4, C06)."""
import numpy as np

from vlib import clock, contracts, graphs as G, gens, oracles
from vlib.base import import_dsw
from vlib.coding import monitored, decode_budget

ID = "C06"
LEVEL = "fault_enumeration"
TECHNIQUE = ("runtime monitoring of the real decode on corrupted strands: return/exception observed per call and compared "
             "with an independent walk oracle + VT formula; sys.monitoring line probes count which rejection sites fired")
LEVEL_TEXT = ("Held on every (graph, start, string, width, check, mode) case of this run. Per generated walk every position is "
              "replaced by every non-arc symbol (exhaustive single-symbol faults per walk); other corruptions are sampled. "
              "Each rejection reason of the oracle has a floor.")
LEVEL_NOTE = ("Trusts the walk oracle and VT formula in vlib. Fast mode is judged only on graphs without out-degree 3 and only "
              "when the walkable prefix carries <= the requested number of bits, as the property states.")
PLAN = {"quick": dict(shards=16, budget=100), "thorough": dict(shards=16, budget=400)}
RULE = ("decode(s, L, G, v, mode, check) on: pristine walks; the walk with its i-th symbol replaced by each symbol that is not "
        "an arc there, for every i; walks with 1-4 random edits; walks running into a dead vertex of an unpruned arc subset; "
        "random ACGT strings; foreign characters (N, lower case, '-', U, multi-byte) at a random offset; the empty string; "
        "checks none / correct / one symbol changed / one symbol appended; L in {0,1,4,16,64,exact}. Verdict: returns an "
        "integer array of exactly L entries iff (walk and check matches), otherwise ValueError and nothing else. "
        "Non-trivial: the string is non-empty and the oracle verdict is decided by the graph or the check (not by an empty "
        "input); distinct = hash of the case."
        ' Also: check lengths 33 and 40, checks passed as numpy.str_, Fortran-ordered accessors, one walk of 1100-1250 nt per shard (int<->str trap) and edit sequences on one accessor object overwritten in place (verdicts must follow the current content).')

REASONS = ("branch", "single", "dead", "symbol")
FOREIGN = ["N", "a", "c", "-", "U", " ", "É", "中", "\n", "\t", "\r", "AC", ""]
# symbols that break naive handling: format / escape characters, NUL, and code points that alias A, C, G, T modulo 128 / 256 / 65536
TRICKY = ["%", "%s", "{", "}", "\\", "\x00", "'", '"'] + [chr(ord(b) + off) for b in "ACGT" for off in (128, 256, 512, 65536)] + [
    # code points that Unicode normalisation / case folding maps onto a nucleotide letter (full-width, circled, mathematical bold,
    # small letters): a decoder that "cleans" its input would accept them
    chr(c + "ACGT".index(b) * 0 + (ord(b) - 65)) for b in "ACGT" for c in (0xFF21, 0x24B6, 0x1D400, 0x1D5A0)] + list("acgt")
LOOKALIKES = {b: [chr(c + ord(b) - 65) for c in (0xFF21, 0x24B6, 0x1D400, 0x1D5A0, 0x1D670)] + [b.lower(), chr(ord(b) + 128), chr(ord(b) + 65536)] for b in "ACGT"}


def setup(ctx):
    import_dsw()
    import dsw.spiderweb as sw
    clock.install(lines=True)
    clock.probe_raises(sw.decode, "decode")


def finish(ctx):
    import dsw.spiderweb as sw
    import dsw.graphized as gz
    for fn in (sw.decode,):
        seen, total = clock.coverage_of(fn)
        ctx.setadd("executed-lines:" + fn.__name__, seen)
        ctx.notes["statement-lines:" + fn.__name__] = len(total)
    for k, v in clock.S.probe_hits.items():
        ctx.mon("probe-hits:" + k, v)


def _checks_for(rng, s):
    """(check string or None, tag)."""
    if not all(c in "ACGT" for c in s):
        return rng.choice([(None, "none"), ("ACG", "arbitrary")])
    x = rng.random()
    if x < 0.03:
        return "", "empty-string"          # a check was supplied, and no check has length 0: it cannot match
    if x < 0.45:
        return None, "none"
    n = rng.choice([1, 2, 3, 5, 8, 8, 33, 40])
    good = oracles.vt(s, n)
    if x < 0.75:
        return good, "correct"
    if x < 0.9:
        i = rng.randrange(n)
        return good[:i] + rng.choice([c for c in "ACGT" if c != good[i]]) + good[i + 1:], "one-symbol-changed"
    return good + rng.choice("ACGT"), "one-symbol-appended"


def _width(rng, acc, start, s, fast):
    w = G.walk(acc, start, s)
    prefix = s[: w["pos"]]
    if fast:
        try:
            carried = len(oracles.fast_bits(oracles.walk_digits(prefix, acc, start)))
        except oracles.RefUndefined:
            carried = 0
        return carried + rng.choice([0, 0, 1, 3, 10])
    return rng.choice([0, 1, 4, 16, 64, len(s) * 2])


def generate(ctx):
    rng = ctx.rng
    # one long walk per shard: its value has > 640 decimal digits, where the int<->str trap bites
    for _ in range(ctx.pick(1, 2)):
        k = rng.choice([1, 2])
        acc = G.complete(k)
        w = G.random_walk(acc, 0, rng.randint(1100, 1250), rng)
        yield "decode", dict(gens.graph_case(acc, k), start=0, fast=False, fam="long", s=w, L=2 * len(w), check=None, stag="long walk", ctag="none")
        bad = w[:500] + "N" + w[501:]
        yield "decode", dict(gens.graph_case(acc, k), start=0, fast=False, fam="long", s=bad, L=2 * len(w), check=None, stag="long walk", ctag="none")
    for _ in range(ctx.pick(30, 300)):
        k = rng.choice([1, 2, 2, 3])
        fast = rng.random() < 0.4
        states, strings = [], []
        first = None
        for _s in range(rng.randint(2, 4)):
            a = gens.arc_graph(rng, k, forbid3=fast)
            if a is None:
                continue
            if first is None:
                first = int(rng.choice(G.live_vertices(a)))
            states.append(G.acc_to_hex(a))
        if len(states) < 2:
            continue
        accs = [G.hex_to_acc(k, h) for h in states]
        for i, a in enumerate(accs):
            # walks of this state and of the other states (the latter are usually not walks here)
            ss = []
            for b in (a, accs[(i + 1) % len(accs)], accs[i - 1]):
                if (b[first] >= 0).any():
                    ss.append(G.random_walk(b, first, rng.randint(1, 8), rng))
            ss.append(gens.random_dna(rng, rng.randint(1, 5)))
            strings.append(ss)
        yield "edit_sequence", dict(k=k, fast=fast, states=states, strings=strings, start=first, L=64)
    ks = ctx.pick([1, 2, 2, 3, 4], [1, 2, 2, 3, 3, 4, 5])
    for gi in range(ctx.pick(600, 6000)):
        k = rng.choice(ks)
        fast = rng.random() < 0.4
        fam = rng.choice(["arc", "arc", "raw", "raw", "closed", "complete"])
        if fam == "arc":
            acc = gens.arc_graph(rng, k, forbid3=fast)
        elif fam == "raw":
            n = 4 ** k
            acc = -np.ones((n, 4), dtype=int)
            dens = rng.choice([0.3, 0.5, 0.7])
            for v in range(n):
                for j in range(4):
                    if rng.random() < dens:
                        acc[v, j] = (v * 4 + j) % n
            if fast:
                for v in range(n):
                    js = [j for j in range(4) if acc[v, j] >= 0]
                    if len(js) == 3:
                        acc[v, rng.choice(js)] = -1
            if not (acc >= 0).any():
                acc = None
        elif fam == "closed":
            acc, _ = gens.closed_graph(rng, k, rng.choice([1, 2, 4] if fast else [1, 2, 3]))
            if acc is not None and fast:
                acc = G.prune_arcs(acc, k, forbid3=True, rng=rng)
                if not (acc >= 0).any():
                    acc = None
        else:
            acc = G.complete(k)
        if acc is None:
            continue
        gcase = gens.graph_case(acc, k)
        live = G.live_vertices(acc)
        for start in rng.sample(live, min(len(live), 3)):
            base = dict(gcase, start=int(start), fast=fast, fam=fam)
            w = G.random_walk(acc, start, rng.choice([1, 2, 3, 5, 8, 12, 20]), rng)
            strings = [("pristine", w), ("empty", "")]
            # every position x every non-arc symbol
            v = start
            for i, ch in enumerate(w):
                for x in "ACGT":
                    if acc[v, "ACGT".index(x)] < 0:
                        strings.append(("non-arc-symbol", w[:i] + x + w[i + 1:]))
                v = int(acc[v, "ACGT".index(ch)])
            for _ in range(4):
                s = w
                for _e in range(rng.randint(1, 4)):
                    if not s:
                        break
                    p = rng.randrange(len(s) + 1)
                    op = rng.choice("SID")
                    if op == "S" and p < len(s):
                        s = s[:p] + rng.choice("ACGT") + s[p + 1:]
                    elif op == "I":
                        s = s[:p] + rng.choice("ACGT") + s[p:]
                    elif p < len(s):
                        s = s[:p] + s[p + 1:]
                strings.append(("edited", s))
            strings.append(("random", gens.random_dna(rng, rng.randint(1, 15))))
            for _ in range(2):
                p = rng.randrange(len(w) + 1)
                f = rng.choice(FOREIGN[:11])
                strings.append(("foreign", w[:p] + f + w[p + 1:]))
            v = start
            for i, ch in enumerate(w):           # a tricky symbol at an out-degree-1 position and at a branching position
                d = int((acc[v] >= 0).sum())
                if (d == 1 and rng.random() < 0.5) or (d > 1 and rng.random() < 0.15):
                    sym = rng.choice(TRICKY) if rng.random() < 0.6 else rng.choice(LOOKALIKES[ch])   # a look-alike of the walk's own letter
                    strings.append(("tricky-symbol", w[:i] + sym + w[i + 1:]))
                v = int(acc[v, "ACGT".index(ch)])
            for ws in ("\n", "\r\n", " ", "\t"):
                strings.append(("foreign-tail", w + ws))          # a walk followed by white space is not a walk
            # walk into a dead vertex, if the graph has one reachable
            strings.append(("extended", w + gens.random_dna(rng, rng.randint(1, 6))))
            for tag, s in strings:
                check, ctag = _checks_for(rng, s)
                yield "decode", dict(base, s=s, L=_width(rng, acc, start, s, fast), check=check, stag=tag, ctag=ctag,
                                     npstr=rng.random() < 0.15, layout=rng.choice([None] * 9 + ["F", "i32", "i16"]))


def check_edit_sequence(ctx, case):
    """G2: the same accessor object is overwritten in place between decode calls; each verdict must follow the walks of
    the *current* content."""
    k = case["k"]
    live = G.hex_to_acc(k, case["states"][0])
    for i, arcs in enumerate(case["states"]):
        live[...] = G.hex_to_acc(k, arcs)
        for s in case["strings"][i]:
            sub = dict(k=k, arcs=arcs, start=case["start"], fast=case["fast"], s=s, L=case["L"], check=None, stag="edit-sequence",
                       ctag="none", fam="edit-sequence")
            before = ctx.violation_count
            check_decode(ctx, sub, acc_obj=live)
            if ctx.violation_count > before:
                ctx.violations[-1]["check"], ctx.violations[-1]["case"] = "edit_sequence", case
                return
    ctx.cls("edit sequences (same accessor object overwritten in place)")
    ctx.done("edit_sequence", case, True)


def check_decode(ctx, case, acc_obj=None):
    dsw = import_dsw()
    acc = gens.acc_of(case) if acc_obj is None else acc_obj
    if case.get("layout"):
        acc = gens.as_layout(acc, case["layout"])
        ctx.cls("accessor layout|" + case["layout"])
    s, L, start, fast, check = case["s"], case["L"], case["start"], case["fast"], case["check"]
    w = G.walk(acc, start, s)
    acgt = all(c in "ACGT" for c in s)
    check_ok = True
    if check is not None:
        check_ok = acgt and len(check) >= 1 and check == oracles.vt(s, len(check))
    if fast:
        if 3 in set(G.out_degrees(acc).tolist()):
            return
        prefix = s[: w["pos"]]
        carried = len(oracles.fast_bits(oracles.walk_digits(prefix, acc, start)))
        if carried > L:
            ctx.cls("fast|not-judged(prefix carries more bits than requested)")
            return
    expect_return = w["ok"] and check_ok
    passed_check = np.str_(check) if (check is not None and case.get("npstr")) else check
    out = monitored(dsw.decode, decode_budget(len(s), L), s, L, acc, start, is_faster=fast, vt_check=passed_check)
    mode = "fast" if fast else "normal"
    if case.get("npstr") and check is not None:
        ctx.cls("check passed as numpy.str_")
    if expect_return:
        if out.kind != "ok":
            ctx.fail("valid-walk-rejected", "%s decode(%r, L=%d, check=%r) %s although the string is a walk%s" % (
                mode, s, L, check, out.describe(), "" if check is None else " and the check matches"))
        else:
            r = out.value
            good = isinstance(r, np.ndarray) and r.ndim == 1 and len(r) == L and (L == 0 or r.dtype.kind in "iu") \
                and all(int(b) in (0, 1) for b in r)
            if not good:
                ctx.fail("wrong-result-shape", "%s decode(%r, L=%d) returned %r" % (mode, s, L, r))
        ctx.cls("%s|accepted" % mode)
    else:
        why = ("check-mismatch-on-valid-walk" if w["ok"] else w["reason"])
        if out.kind == "ok":
            ctx.fail("non-walk-accepted:" + why, "%s decode(%r, L=%d, check=%r) returned %s; oracle: %s at position %d" % (
                mode, s, L, check, np.asarray(out.value).tolist(), why, w["pos"]))
        elif out.kind == "budget":
            ctx.fail("decode-no-return", "decode(%r) %s" % (s, out.describe()))
        elif not isinstance(out.exc, ValueError):
            ctx.fail("wrong-exception-type:" + type(out.exc).__name__, "%s decode(%r, L=%d, check=%r) %s; oracle: %s at %d" % (
                mode, s, L, check, out.describe(), why, w["pos"]))
        ctx.cls("%s|rejected|%s" % (mode, why))
    ctx.cls("string|" + case["stag"])
    ctx.cls("check|" + case["ctag"])
    if acc_obj is None:
        ctx.done("decode", case, len(s) > 0)
    else:
        ctx.evaluations += 1


CHECKS = {"decode": check_decode, "edit_sequence": check_edit_sequence}


def floors(agg, tier):
    out = []
    c = agg["classes"]
    for mode in ("normal", "fast"):
        for why in ("branch", "single", "dead", "symbol", "check-mismatch-on-valid-walk"):
            name = "%s|rejected|%s" % (mode, why)
            if c.get(name, 0) < 50:
                out.append("%s observed %d < 50" % (name, c.get(name, 0)))
        if c.get(mode + "|accepted", 0) < 200:
            out.append("%s accepted walks %d < 200" % (mode, c.get(mode + "|accepted", 0)))
    for name, need in (("edit sequences (same accessor object overwritten in place)", 100), ("check passed as numpy.str_", 500),
                       ("string|long walk", 20), ("string|foreign-tail", 1000), ("check|empty-string", 500), ("string|tricky-symbol", 2000), ("accessor layout|i16", 300)):
        if c.get(name, 0) < need:
            out.append("%s observed %d < %d" % (name, c.get(name, 0), need))
    if not any(k.startswith("probe-hits:decode:raise") for k in agg["monitors"]):
        out.append("no raise statement of decode was observed by the line probes")
    return out
