"""C10 - repair always returns (DESIGN.md section 4, C10)."""
import numpy as np

from vlib import clock, graphs as G, gens, oracles
from vlib.base import import_dsw
from props._repair import generated_graph, large_order_graph, call_repair, well_formed, repair_budget_reads, repair_budget_jumps
from props.C09 import _corrupt

ID = "C10"
LEVEL = "fault_enumeration"
TECHNIQUE = ("runtime monitoring of the real repair_dna under a graph look-up budget enforced by an array access proxy and a "
             "sys.monitoring loop-iteration clock: bounded progress in logical steps instead of wall-clock, result shape checked")
LEVEL_TEXT = ("Termination is restated as bounded progress: every call of this run returned a well-formed pair within "
              "2n + 40k(n+k+1) + 100 graph look-ups and the loop-iteration budget, without raising. Hostile classes (first "
              "nucleotide not an arc of the start vertex - for every start vertex of the graph -, dead start vertex, errors in "
              "each of the last k positions, strings nowhere near a walk, alternating error/clean blocks, length exactly k) are "
              "populated by construction.")
LEVEL_NOTE = ("A finite budget decides 'never returns' for the loops that perform graph look-ups; the candidate product is bounded "
              "by heap_size <= 1e4 here (an unbounded product performs no look-ups and is outside the property). A wall-clock "
              "watchdog only ever yields inconclusive.")
PLAN = {"quick": dict(shards=16, budget=100), "thorough": dict(shards=16, budget=400)}
RULE = ("repair_dna(s, CountingAccessor(G), v, k, check, has_indel, heap_size <= 1e4) for ACGT strings with |s| >= k: walks with "
        "0-8 edits anywhere, first nucleotide not an arc of v for every live v, v a dead vertex, an error at each of the last k "
        "positions, a closed walk with one error repeated 40-70 times (40-70 error sites), random strings, alternating error/clean blocks of period k+1, |s| == k; arc-subset (also unpruned) and "
        "generated graphs, k = 1..4 (5 thorough). Verdict: returns (list of ACGT strings, statistics tuple) within the look-up and "
        "loop budgets, no exception. Non-trivial: the strand is not a walk from v; distinct = hash of the case."
        ' Also: check lengths 33/40 and order-8 generated graphs.')


def setup(ctx):
    import_dsw()
    clock.install(lines=False)


def generate(ctx):
    rng = ctx.rng
    dsw = import_dsw()
    if ctx.shard % 4 == 0 or not ctx.quick():
        big = large_order_graph(dsw, rng, 8)     # vertex indices beyond 2^15
        if big is not None:
            live8 = G.live_vertices(big)
            g8 = dict(gens.graph_case(big, 8), fam="order-8")
            for _ in range(6):
                st = int(rng.choice(live8))
                w = G.random_walk(big, st, rng.randint(30, 60), rng)
                for ne in (0, 1, 3):
                    s = _corrupt(rng, w, ne)
                    if len(s) >= 8:
                        yield "repair", dict(g8, start=st, s=s, tag="order-8", indel=rng.random() < 0.6, heap=1e3, nvt=rng.choice([0, 4]))
    ks = ctx.pick([1, 2, 2, 3, 3, 4], [1, 2, 2, 3, 3, 4, 4, 5])
    for _ in range(ctx.pick(150, 1500)):
        k = rng.choice(ks)
        fam = rng.choice(["arc-subset", "raw", "generated", "generated"])
        n = 4 ** k
        if fam == "arc-subset":
            acc = gens.arc_graph(rng, k)
        elif fam == "raw":
            acc = -np.ones((n, 4), dtype=int)
            d = rng.choice([0.2, 0.4, 0.7])
            for v in range(n):
                for j in range(4):
                    if rng.random() < d:
                        acc[v, j] = (v * 4 + j) % n
            if not (acc >= 0).any():
                acc = None
        else:
            g = generated_graph(dsw, rng, k)
            acc = None if g is None else g[0]
        if acc is None:
            continue
        gcase = dict(gens.graph_case(acc, k), fam=fam)
        live = G.live_vertices(acc)
        dead = [v for v in range(n) if v not in set(live)]

        def opts(few_sites=False):
            # heap limits as a float, an int, and "no limit" (the latter two only where few error sites keep the product small)
            return dict(indel=rng.random() < 0.6, heap=rng.choice([0, 1, 10, 1e3, 1e4] + (["inf", "inf", 10 ** 9, 1000] if few_sites else [])),
                        nvt=rng.choice([0, 0, 2, 4, 4, 33, 40]))
        # first nucleotide not an arc of the start vertex, for every live start vertex (bounded for large graphs)
        for v in (live if len(live) <= 24 else rng.sample(live, 24)):
            missing = [j for j in range(4) if acc[v, j] < 0]
            if not missing:
                continue
            tail = G.random_walk(acc, rng.choice(live), rng.randint(k, 3 * k + 4), rng)
            s = "ACGT"[rng.choice(missing)] + tail
            yield "repair", dict(gcase, start=int(v), s=s[:max(len(s), k)], tag="first-not-an-arc", **opts(True))
        if dead:
            v = rng.choice(dead)
            yield "repair", dict(gcase, start=int(v), s=gens.random_dna(rng, rng.randint(k, 4 * k + 3)), tag="dead-start", **opts())
        # many error sites: a closed walk carrying one detectable error, repeated 40-70 times (the candidate product of a
        # conforming repair exceeds any heap limit and 2^63; it must fall back, not enumerate)
        if rng.random() < ctx.pick(0.35, 0.5):
            unit = _closed_walk_with_error(rng, acc, k, live)
            if unit is not None:
                v0, text = unit
                reps = rng.choice([40, 50, 60, 62, 63, 64, 65, 70])
                yield "repair", dict(gcase, start=int(v0), s=text * reps, tag="many-error-sites", **opts())
                if rng.random() < ctx.pick(0.25, 0.5):
                    # more than a thousand error sites: with one candidate each the product stays within any heap limit
                    yield "repair", dict(gcase, start=int(v0), s=text * rng.choice([1000, 1100, 1250]), tag="thousand-error-sites",
                                         indel=False, heap=1e4, nvt=0)
        for _w in range(ctx.pick(3, 5)):
            start = rng.choice(live)
            w = G.random_walk(acc, start, rng.choice([k, 2 * k + 1, 4 * k + 3, 8 * k + 5, 14 * k + 9]), rng)
            if len(w) < k:
                continue
            yield "repair", dict(gcase, start=int(start), s=w, tag="walk", **opts(True))
            yield "repair", dict(gcase, start=int(start), s=w[:k], tag="length-k", **opts(True))
            for ne in (1, 2, 4, 8):
                s = _corrupt(rng, w, ne)
                if len(s) >= k:
                    yield "repair", dict(gcase, start=int(start), s=s, tag="edited", **opts())
            for back in range(1, k + 1):   # an error at each of the last k positions
                if len(w) > back:
                    p = len(w) - back
                    for x in "ACGT":
                        if x != w[p]:
                            yield "repair", dict(gcase, start=int(start), s=w[:p] + x + w[p + 1:], tag="last-window", **opts(True))
                            break
            for p in range(0, min(k, len(w))):   # and in each of the first k positions
                x = rng.choice([c for c in "ACGT" if c != w[p]])
                yield "repair", dict(gcase, start=int(start), s=w[:p] + x + w[p + 1:], tag="first-window", **opts(True))
            alt = list(w)
            for p in range(rng.randrange(k + 1), len(alt), k + 1):
                alt[p] = rng.choice([c for c in "ACGT" if c != alt[p]])
            yield "repair", dict(gcase, start=int(start), s="".join(alt), tag="alternating", **opts())
            yield "repair", dict(gcase, start=int(start), s=gens.random_dna(rng, max(k, len(w))), tag="random", **opts())
            yield "repair", dict(gcase, start=int(start), s=rng.choice("ACGT") * max(k, len(w)), tag="homopolymer", **opts())


def _closed_walk_with_error(rng, acc, k, live):
    """(start, text): text is a closed walk from start (length >= 3k+3) with one substitution that makes it leave the graph."""
    for _ in range(20):
        v0 = int(rng.choice(live))
        w = G.random_walk(acc, v0, rng.randint(3 * k + 3, 6 * k + 8), rng)
        if len(w) < 3 * k + 3:
            continue
        # close the walk: find the shortest continuation back to v0 (BFS over <= 3k+6 steps)
        end = G.walk(acc, v0, w)["end"]
        frontier, seen = [(end, "")], {end}
        closing = None
        while frontier and closing is None:
            nxt = []
            for v, path in frontier:
                if v == v0 and (path or end == v0):
                    closing = path
                    break
                if len(path) > 3 * k + 6:
                    continue
                for j in range(4):
                    u = int(acc[v, j])
                    if u >= 0 and (u not in seen or u == v0):
                        seen.add(u)
                        nxt.append((u, path + "ACGT"[j]))
            frontier = nxt
        if closing is None:
            continue
        c = w + closing
        for _try in range(12):
            p = rng.randrange(k, max(k + 1, len(c) - 2 * k))
            x = rng.choice([ch for ch in "ACGT" if ch != c[p]])
            bad = c[:p] + x + c[p + 1:]
            if not G.walk(acc, v0, bad)["ok"]:
                return v0, bad
    return None


def check_repair(ctx, case):
    dsw = import_dsw()
    acc = gens.acc_of(case)
    lay = {0: "F", 1: "i32", 2: "i16"}.get(sum(map(ord, case["s"][:64])) % 11)
    if lay:
        acc = gens.as_layout(acc, lay)
        ctx.cls("accessor layout|" + lay)
    k, s, start = case["k"], case["s"], case["start"]
    if len(s) < k:
        return
    ctx.cls("heap|%s" % case["heap"])
    check = gens.random_dna(ctx.rng, case["nvt"]) if case["nvt"] and ctx.rng.random() < 0.5 else (oracles.vt(s, case["nvt"]) if case["nvt"] else None)
    kind, res, reads, steps = call_repair(dsw, s, acc, start, k, check=check, has_indel=case["indel"], heap=case["heap"],
                                          count_reads=bool(acc.flags.c_contiguous))
    if reads is None:
        reads = 0
    n = len(s)
    where = "k=%d start=%s (%d) s=%s check=%s has_indel=%s heap=%s graph=%s" % (k, G.kmer(start, k), start, s, check, case["indel"], case["heap"], case["arcs"])
    ctx.obs("lookups_over_budget", reads / repair_budget_reads(n, k))
    ctx.obs("loop_iterations_over_budget", steps / repair_budget_jumps(n, k, case["heap"]))
    if kind == "lookups":
        ctx.fail("no-return-within-lookup-budget", "repair_dna made more than %d graph look-ups (n=%d, k=%d); %s" % (repair_budget_reads(n, k), n, k, where))
    elif kind == "budget":
        ctx.fail("no-return-within-loop-budget", "repair_dna exceeded %d loop iterations after %d graph look-ups; %s" % (repair_budget_jumps(n, k, case["heap"]), reads, where))
    elif kind == "raised":
        ctx.fail("repair-raised:" + type(res).__name__, "repair_dna raised %s: %s; %s" % (type(res).__name__, res, where))
    elif not well_formed(res):
        ctx.fail("malformed-result", "repair_dna returned %r; %s" % (res, where))
    ctx.cls("string|" + case["tag"])
    ctx.cls("family|" + case["fam"])
    ctx.cls("k|%d" % k)
    ctx.obs("max_strand_length", n)
    ctx.done("repair", case, not G.walk(acc, start, s)["ok"])


CHECKS = {"repair": check_repair}


def floors(agg, tier):
    out = []
    c = agg["classes"]
    for name, need in (("string|first-not-an-arc", 500), ("string|dead-start", 50), ("string|last-window", 300),
                       ("string|first-window", 300), ("string|random", 200), ("string|alternating", 200), ("string|length-k", 200),
                       ("string|edited", 500), ("family|raw", 200), ("string|many-error-sites", 30), ("string|order-8", 20), ("string|thousand-error-sites", 10), ("accessor layout|F", 500), ("accessor layout|i16", 300), ("heap|inf", 300), ("heap|1000000000", 100)):
        if c.get(name, 0) < need:
            out.append("%s observed %d < %d" % (name, c.get(name, 0), need))
    return out
