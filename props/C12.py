"""C12 - the local filter implements its documented window predicate (DESIGN.md section 4, C12)."""
from fractions import Fraction

import numpy as np

from vlib import clock, gens, oracles
from vlib.base import import_dsw
from vlib.coding import monitored

ID = "C12"
LEVEL = "exploration"
TECHNIQUE = ("runtime monitoring of the real LocalBioFilter.valid against an independent predicate on exact rationals, plus "
             "metamorphic monitors (reverse complement, window conjunction, last-window == verdict of the final window)")
LEVEL_TEXT = ("Held on every (configuration, string, only_last) case of this run; strings are built around the decision "
              "boundaries (runs of limit / limit+1, motif and reverse complement at every offset, G+C counts at the bounds +-1, "
              "foreign characters at every offset, lengths 0..3k+2). Sampled, with floors per rejection reason.")
LEVEL_NOTE = ("GC bounds are drawn as (2j+1)/(2k) or from {0, 1/4, 1/2, 3/4, 1}, so float rounding of bound*k can never flip an "
              "integer comparison and any conforming implementation agrees with the rational oracle (no false alarms).")
PLAN = {"quick": dict(shards=16, budget=100), "thorough": dict(shards=16, budget=300)}
RULE = ("LocalBioFilter(k, run, gc, motifs).valid(s, only_last) for k = 1..10 (15% of the configurations 11..20), run limit None/0..k, GC ranges incl. degenerate, "
        "inverted and asymmetric, motif sets incl. palindromic and self-overlapping motifs; strings of length 0, 1, k-1, k, k+1, "
        "2k, 3k+2 with a G+C bias sweeping the bounds, injected runs (limit, limit+1), motif / reverse complement at every "
        "offset, foreign characters at every offset. Verdict vs the rational predicate; valid(s, True) == valid(s[-k:], False); "
        "valid(s) == valid(revcomp(s)) for ACGT strings; for |s| >= k and window-decidable configurations valid(s) == all("
        "valid(window)). Non-trivial: the string is at least 2 long and at least one rule is configured; distinct = hash."
        ' Also: white-space tails (newline, CR LF, tab, NUL) after an acceptable strand, strings of 1000-1600 nt with a window exactly on a GC bound at the start / end / inside, and one filter object judging a strand that grows piece by piece (verdicts must not depend on earlier calls).')


def ref_valid(cfg, s, only_last):
    k, run, gc, motifs = cfg["k"], cfg["run"], cfg["gc"], cfg["motifs"]
    obs = s[-k:] if only_last else s
    if any(c not in "ACGT" for c in obs):
        return False, "alphabet"
    if run is not None:
        longest, cur, prev = 0, 0, None
        for c in obs:
            cur = cur + 1 if c == prev else 1
            prev = c
            longest = max(longest, cur)
        if longest > run:
            return False, "run"
    if motifs is not None:
        for m in motifs:
            if any(c not in "ACGT" for c in m):
                continue            # a motif with a symbol outside the alphabet (IUPAC N, U) can never occur in an acceptable string
            if m in obs or oracles.revcomp(m) in obs:
                return False, "motif"
    if gc is not None:
        lo, hi = Fraction(gc[0]), Fraction(gc[1])
        if len(obs) >= k:
            for i in range(len(obs) - k + 1):
                w = obs[i:i + k]
                n = w.count("C") + w.count("G")
                if n > hi * k or n < lo * k:
                    return False, "gc-window"
        else:
            n = obs.count("C") + obs.count("G")
            if n > hi * k:
                return False, "gc-short"
            if (len(obs) - n) > (1 - lo) * k:
                return False, "gc-short"
    return True, "accept"


def setup(ctx):
    import_dsw()
    clock.install(lines=False)


def _gc_range(rng, k):
    kind = rng.choice(["half", "quarter", "quarter", "degenerate", "inverted", "asym", "none", "full", "third", "third"])
    if kind == "third":
        # bounds whose scaled value lies a third away from an integer: rounding cannot decide, the count is never *on* the bound
        js = sorted(rng.sample(range(0, k + 1), 2)) if k >= 1 else [0, 0]
        lo = "%d/%d" % (max(0, 3 * js[0] - rng.choice([1, 2])), 3 * k)
        hi = "%d/%d" % (min(3 * k, 3 * js[1] + rng.choice([1, 2])), 3 * k)
        return [lo, hi]
    if kind == "none":
        return None
    if kind == "full":
        return ["0", "1"]
    if kind == "degenerate":
        f = rng.choice(["1/2", "1/4", "3/4"])
        return [f, f]
    if kind == "quarter":
        lo, hi = sorted(rng.sample(["0", "1/4", "1/2", "3/4", "1"], 2), key=Fraction)
        return [lo, hi]
    if kind == "inverted":
        return ["3/4", "1/4"]
    js = sorted(rng.sample(range(0, k), 2)) if k >= 2 else [0, 0]
    lo = "%d/%d" % (2 * js[0] + 1, 2 * k)
    hi = "%d/%d" % (2 * js[1] + 1, 2 * k)
    if kind == "asym":
        return [lo, "1"] if rng.random() < 0.5 else ["0", hi]
    return [lo, hi]


def _motifs(rng, k):
    if rng.random() < 0.45:
        return None
    out = []
    for _ in range(rng.randint(1, 3)):
        n = rng.randint(1, k)
        kind = rng.choice(["random", "palindrome", "overlap"])
        if kind == "palindrome" and n >= 2:
            h = gens.random_dna(rng, n // 2)
            m = h + oracles.revcomp(h)
        elif kind == "overlap" and n >= 2:
            u = gens.random_dna(rng, max(1, n // 2))
            m = (u * n)[:n]
        else:
            m = gens.random_dna(rng, n)
        out.append(m)
    if rng.random() < 0.2:
        out.append(oracles.revcomp(rng.choice(out)))     # a motif listed together with its own reverse complement
    if rng.random() < 0.08 and k >= 2:
        m = list(gens.random_dna(rng, rng.randint(2, k)))
        m[rng.randrange(len(m))] = rng.choice("NNURYW")  # restriction sites are often written with IUPAC wildcards
        out.append("".join(m))
    return out


def _config(rng):
    k = rng.randint(1, 10) if rng.random() < 0.85 else rng.randint(11, 20)
    if rng.random() < 0.02:
        k = rng.choice([127, 128, 129, 160, 200, 255, 256, 300])     # windows whose G+C count does not fit a signed / unsigned byte
        return dict(k=k, run=rng.choice([None, None, 3, 8]), gc=rng.choice([["1/4", "3/4"], ["0", "1"], ["1/2", "3/4"], ["1/4", "1"], _gc_range(rng, k)]),
                    motifs=rng.choice([None, None, [gens.random_dna(rng, rng.randint(4, 9))]]))
    run = rng.choice([None, None] + list(range(0, k + 1)))
    return dict(k=k, run=run, gc=_gc_range(rng, k), motifs=_motifs(rng, k))


def _biased(rng, n, gc_target):
    out = []
    for i in range(n):
        out.append(rng.choice("CG") if rng.random() < gc_target else rng.choice("AT"))
    return "".join(out)


def _exact_gc(rng, n, count):
    count = max(0, min(n, count))
    chars = [rng.choice("CG") for _ in range(count)] + [rng.choice("AT") for _ in range(n - count)]
    rng.shuffle(chars)
    return "".join(chars)


def _strings(rng, cfg):
    k = cfg["k"]
    lens = sorted({0, 1, max(k - 1, 0), k, k + 1, 2 * k, 3 * k + 2})
    out = []
    for n in lens:
        out.append(("biased", _biased(rng, n, rng.choice([0.1, 0.3, 0.5, 0.7, 0.9]))))
    if cfg["gc"] is not None:
        lo, hi = Fraction(cfg["gc"][0]), Fraction(cfg["gc"][1])
        for bound in (lo * k, hi * k):
            for delta in (-1, 0, 1):
                c = int(bound) + delta if bound == int(bound) else int(bound) + (0 if delta <= 0 else 1)
                out.append(("gc-boundary", _exact_gc(rng, k, c)))
                out.append(("gc-boundary", _exact_gc(rng, k, c) + _exact_gc(rng, rng.randint(1, k), c // 2)))
                if k > 1:
                    out.append(("gc-boundary-short", _exact_gc(rng, rng.randint(1, k - 1), min(c, k - 1))))
    if cfg["run"] is not None:
        base = _biased(rng, rng.choice(lens[2:]), 0.5)
        for extra in (0, 1):
            p = rng.randrange(len(base) + 1)
            c = rng.choice("ACGT")
            # a run of exactly run+extra, delimited by different symbols
            d = rng.choice([x for x in "ACGT" if x != c])
            out.append(("run", base[:p] + d + c * (cfg["run"] + extra) + d + base[p:]))
    if cfg["motifs"]:
        base = _exact_gc(rng, 2 * k + 1, k)
        for m in cfg["motifs"]:
            acgt_motif = all(c in "ACGT" for c in m)
            for ins in ((m, oracles.revcomp(m), m[:-1]) if acgt_motif else ("".join(c if c in "ACGT" else "A" for c in m), m)):
                p = rng.randrange(len(base) + 1)
                out.append(("motif", base[:p] + ins + base[p:]))
                out.append(("motif-tail", base + ins))
    base = _exact_gc(rng, rng.choice([k, 2 * k]), k // 2)
    for _ in range(2):
        p = rng.randrange(len(base))
        out.append(("foreign", base[:p] + rng.choice(["N", "a", "t", "U", "-", " ", "É", "\n", "\r", "\t", "\x00", "\ud800", "\udfff", "\U0001f9ec", "\u0391"]) + base[p + 1:]))
    for ws in ("\n", "\r\n", " ", "\t", "\x00"):
        if rng.random() < 0.5:
            out.append(("foreign-tail", base + ws))            # an otherwise acceptable strand followed by white space
            out.append(("foreign-tail", ws + base))
    return out


def _long_boundary(rng, cfg):
    """Strings of 1000-1600 nt whose first (or last, or one inner) window sits exactly on a GC bound."""
    k = cfg["k"]
    lo, hi = Fraction(cfg["gc"][0]) * k, Fraction(cfg["gc"][1]) * k
    import math
    targets = [t for t in (math.ceil(lo), math.floor(hi), math.ceil(lo) - 1, math.floor(hi) + 1) if 0 <= t <= k]
    mid = (math.ceil(lo) + math.floor(hi)) // 2
    n = rng.randint(1000, 1600)
    body = []
    while len(body) < n:      # windows of the body stay near the middle of the range: period-k pattern with `mid` G/C
        unit = list(_exact_gc(rng, k, max(0, min(k, mid))))
        body.extend(unit)
    body = "".join(body[:n])
    t = rng.choice(targets)
    edge = _exact_gc(rng, k, t)
    if rng.random() < 0.5 and edge:
        edge = rng.choice("GC") + edge[1:] if edge[0] in "AT" and t > 0 else edge
    where = rng.choice(["first", "last", "inner"])
    if where == "first":
        return edge + body
    if where == "last":
        return body + edge
    p = rng.randrange(k, n - 2 * k)
    return body[:p] + edge + body[p + k:]


def generate(ctx):
    rng = ctx.rng
    for _ in range(ctx.pick(40, 400)):
        cfg = _config(rng)
        if cfg["gc"] is None or Fraction(cfg["gc"][0]) > Fraction(cfg["gc"][1]):
            continue
        cfg = dict(cfg, run=None, motifs=None)
        yield "valid", dict(cfg=cfg, s=_long_boundary(rng, cfg), tag="long")
    for _ in range(ctx.pick(150, 1500)):
        cfg = _config(rng)
        base = [s for _t, s in _strings(rng, cfg) if all(c in "ACGT" for c in s)]
        yield "growth", dict(cfg=cfg, pieces=[rng.choice(base) if base else "A" for _ in range(rng.randint(2, 5))],
                             cuts=[rng.randint(1, 4) for _ in range(5)])
    for _ in range(ctx.pick(150, 1500)):
        cfg = _config(rng)
        strings = [s for _t, s in _strings(rng, cfg)][:12]
        k = cfg["k"]
        steps = []
        for _s in range(3):
            what = rng.choice(["motif-append", "motif-set", "run", "gc-item"])
            if what == "motif-append":
                steps.append([what, gens.random_dna(rng, rng.randint(1, k))])
            elif what == "motif-set":
                steps.append([what, rng.randrange(4), gens.random_dna(rng, rng.randint(1, k))])
            elif what == "run":
                steps.append([what, rng.choice([None] + list(range(0, k + 1)))])
            else:
                steps.append([what, rng.randrange(2), rng.choice(["0", "1/4", "1/2", "3/4", "1"])])
        yield "config_edits", dict(cfg=cfg, strings=strings, steps=steps)
    for _ in range(ctx.pick(1500, 20000)):
        cfg = _config(rng)
        for tag, s in _strings(rng, cfg):
            yield "valid", dict(cfg=cfg, s=s, tag=tag)


def _build(dsw, cfg):
    gc = None if cfg["gc"] is None else [float(Fraction(cfg["gc"][0])), float(Fraction(cfg["gc"][1]))]
    if gc is not None:
        # the range as callers hold it: a list, a tuple, a float64 array (a row of a settings table)
        form = ("list", "tuple", "float64 array")[(cfg["k"] + len(cfg["motifs"] or ()) + (cfg["run"] or 0)) % 3]
        gc = gc if form == "list" else tuple(gc) if form == "tuple" else np.array(gc, dtype=float)
    return dsw.LocalBioFilter(observed_length=cfg["k"], max_homopolymer_runs=cfg["run"], gc_range=gc,
                              undesired_motifs=None if cfg["motifs"] is None else list(cfg["motifs"]))


def _lib(ctx, f, s, only_last, what):
    out = monitored(f.valid, 200000, s, only_last)
    if out.kind != "ok":
        ctx.fail("valid-" + out.kind, "%s: valid(%r, only_last=%s) %s" % (what, s, only_last, out.describe()))
        return None
    if not isinstance(out.value, (bool,)) and type(out.value).__name__ not in ("bool_", "bool"):
        ctx.fail("valid-not-bool", "%s: valid(%r) returned %r" % (what, s, out.value))
        return None
    return bool(out.value)


def check_valid(ctx, case):
    dsw = import_dsw()
    cfg, s = case["cfg"], case["s"]
    k = cfg["k"]
    what = "LocalBioFilter(k=%d, run=%s, gc=%s, motifs=%s)" % (k, cfg["run"], cfg["gc"], cfg["motifs"])
    out = monitored(_build, 10000, dsw, cfg)
    if out.kind != "ok":
        if cfg["run"] is not None and cfg["run"] > k:
            return
        ctx.fail("constructor-" + out.kind, "%s %s" % (what, out.describe()))
        return
    f = out.value
    configured = cfg["run"] is not None or cfg["gc"] is not None or cfg["motifs"] is not None
    if k >= 127:
        ctx.cls("window length >= 127")
    for only_last in (False, True):
        want, why = ref_valid(cfg, s, only_last)
        got = _lib(ctx, f, s, only_last, what)
        if got is not None and got != want:
            ctx.fail("verdict-differs:" + why, "%s.valid(%r, only_last=%s) = %s, predicate says %s (%s)" % (what, s, only_last, got, want, why))
        ctx.cls("only_last=%s|%s" % (only_last, why))
        ctx.evaluations += 1
    whole = _lib(ctx, f, s, False, what)
    # last-window verdict == whole-sequence verdict of the final window
    a, b = _lib(ctx, f, s, True, what), _lib(ctx, f, s[-k:], False, what)
    if a is not None and b is not None and a != b:
        ctx.fail("last-window-differs", "%s: valid(%r, True)=%s but valid(final window %r, False)=%s" % (what, s, a, s[-k:], b))
    acgt = all(c in "ACGT" for c in s)
    if acgt and whole is not None:
        r = _lib(ctx, f, oracles.revcomp(s), False, what)
        if r is not None and r != whole:
            ctx.fail("reverse-complement-differs", "%s: valid(%r)=%s but valid(revcomp %r)=%s" % (what, s, whole, oracles.revcomp(s), r))
        ctx.cls("metamorphic|revcomp")
    decidable = (cfg["run"] is None or cfg["run"] < k) and all(len(m) <= k for m in (cfg["motifs"] or []))
    if decidable and len(s) >= k and whole is not None:
        conj = True
        for i in range(len(s) - k + 1):
            v = _lib(ctx, f, s[i:i + k], False, what)
            if v is False:
                conj = False
                break
        if conj != whole:
            ctx.fail("window-conjunction-differs", "%s: valid(%r)=%s but the conjunction over its windows is %s" % (what, s, whole, conj))
        ctx.cls("metamorphic|window-conjunction")
    if cfg["gc"] is not None and len(s) == k and acgt:
        n = s.count("C") + s.count("G")
        lo, hi = Fraction(cfg["gc"][0]) * k, Fraction(cfg["gc"][1]) * k
        for name, bound in (("lo", lo), ("hi", hi)):
            if abs(n - bound) <= 1:
                ctx.cls("gc-count within 1 of %s bound" % name)
    ctx.cls("string|" + case["tag"])
    ctx.cls("k|%s" % (k if k <= 10 else ">10"))
    ctx.done("valid", case, len(s) >= 2 and configured)


def check_growth(ctx, case):
    """One filter object judges a strand that grows step by step (the way a tree-based encoder uses it): every verdict
    must depend on the configuration and the current string only, not on what the object was asked before."""
    dsw = import_dsw()
    cfg = case["cfg"]
    out = monitored(_build, 10000, dsw, cfg)
    if out.kind != "ok":
        return
    f = out.value
    what = "LocalBioFilter(k=%d, run=%s, gc=%s, motifs=%s), one object" % (cfg["k"], cfg["run"], cfg["gc"], cfg["motifs"])
    grown = ""
    steps = 0
    for piece, cut in zip(case["pieces"], case["cuts"]):
        for i in range(0, len(piece), cut):
            grown += piece[i:i + cut]
            for only_last in (False, True):
                want, why = ref_valid(cfg, grown, only_last)
                got = _lib(ctx, f, grown, only_last, what)
                if got is not None and got != want:
                    ctx.fail("verdict-depends-on-history:" + why, "%s: after judging its prefixes, valid(%r, only_last=%s) = %s, predicate says %s (%s)" % (
                        what, grown, only_last, got, want, why), "growth", case)
                    return
            steps += 1
            if steps > 60:
                break
    ctx.cls("growing strand judged by one filter object")
    ctx.evaluations += steps
    ctx.done("growth", case, True)


def check_config_edits(ctx, case):
    """G2: one filter object whose public settings are edited in place between calls (a motif appended to the same list,
    a list item replaced, the run limit or one GC bound changed); every verdict must follow the settings as they are."""
    dsw = import_dsw()
    cfg = dict(case["cfg"])
    cfg["motifs"] = None if cfg["motifs"] is None else list(cfg["motifs"])
    cfg["gc"] = None if cfg["gc"] is None else list(cfg["gc"])
    out = monitored(_build, 10000, dsw, cfg)
    if out.kind != "ok":
        return
    f = out.value
    for stage in range(len(case["steps"]) + 1):
        what = "LocalBioFilter edited in place (stage %d): k=%d run=%s gc=%s motifs=%s" % (stage, cfg["k"], cfg["run"], cfg["gc"], cfg["motifs"])
        for s in case["strings"]:
            for only_last in (False, True):
                want, why = ref_valid(cfg, s, only_last)
                got = _lib(ctx, f, s, only_last, what)
                if got is not None and got != want:
                    ctx.fail("verdict-stale-after-settings-edit:" + why, "%s: valid(%r, only_last=%s) = %s, predicate for the current settings says %s" % (
                        what, s, only_last, got, want), "config_edits", case)
                    return
                ctx.evaluations += 1
        if stage < len(case["steps"]):
            st = case["steps"][stage]
            if st[0] == "motif-append":
                if f.undesired_motifs is None:
                    f.undesired_motifs = []
                    cfg["motifs"] = []
                f.undesired_motifs.append(st[1])
                cfg["motifs"].append(st[1])
            elif st[0] == "motif-set":
                if f.undesired_motifs:
                    i = st[1] % len(f.undesired_motifs)
                    f.undesired_motifs[i] = st[2]
                    cfg["motifs"][i] = st[2]
            elif st[0] == "run":
                f.max_homopolymer_runs = st[1]
                cfg["run"] = st[1]
            elif f.gc_range is not None:
                if isinstance(f.gc_range, tuple):       # a tuple is replaced, a list / array is edited in place
                    new = list(f.gc_range)
                    new[st[1]] = float(Fraction(st[2]))
                    f.gc_range = tuple(new)
                else:
                    f.gc_range[st[1]] = float(Fraction(st[2]))
                cfg["gc"][st[1]] = st[2]
    ctx.cls("settings of one filter object edited in place between calls")
    ctx.done("config_edits", case, True)


CHECKS = {"valid": check_valid, "growth": check_growth, "config_edits": check_config_edits}


def floors(agg, tier):
    out = []
    c = agg["classes"]
    for why in ("alphabet", "run", "motif", "gc-window", "gc-short", "accept"):
        for ol in (False, True):
            name = "only_last=%s|%s" % (ol, why)
            need = 500 if not (ol and why == "gc-short") else 100
            if c.get(name, 0) < need:
                out.append("%s decided %d < %d" % (name, c.get(name, 0), need))
    for name, need in (("settings of one filter object edited in place between calls", 500), ("growing strand judged by one filter object", 500), ("string|long", 100), ("string|foreign-tail", 500), ("window length >= 127", 300),
                       ("gc-count within 1 of lo bound", 100), ("gc-count within 1 of hi bound", 100),
                       ("metamorphic|revcomp", 1000), ("metamorphic|window-conjunction", 1000)):
        if c.get(name, 0) < need:
            out.append("%s observed %d < %d" % (name, c.get(name, 0), need))
    return out
