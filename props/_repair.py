"""Shared pieces of the repair checks C08 / C09 / C10."""
import numpy as np

from vlib import clock, graphs as G, gens
from vlib.base import import_dsw
from vlib.coding import monitored
from vlib.proxies import CountingAccessor, AccessBudgetExceeded

NUC = "ACGT"


def generated_graph(dsw, rng, k, fam=None):
    """A graph returned by the library's own generator (what C08 quantifies over), from a sparse / dense / filter mask.
    Returns (acc, t, fam) or None."""
    fam = fam or rng.choice(["sparse", "sparse", "dense", "filter", "filter"])
    n = 4 ** k
    if fam == "sparse":
        mask = np.array(gens.rand_mask(rng, k, rng.choice([0.45, 0.55, 0.65])), dtype=bool)
    elif fam == "dense":
        mask = np.array(gens.rand_mask(rng, k, rng.choice([0.8, 0.9, 1.0])), dtype=bool)
    else:
        run = rng.choice([1, 2, 2, 3])
        lo, hi = rng.choice([(0.0, 1.0), (0.25, 0.75), (0.5, 0.5), (0.0, 0.5), (0.4, 0.6), (1 / 3, 2 / 3)])
        mask = []
        for v in range(n):
            s = G.kmer(v, k)
            gc = s.count("C") + s.count("G")
            ok = not any(c * (run + 1) in s for c in NUC) and lo * k <= gc <= hi * k
            mask.append(ok)
        mask = np.array(mask, dtype=bool)
    if not mask.any():
        return None
    t = rng.choice([1, 1, 2, 2, 3])
    out = monitored(dsw.connect_coding_graph, 400 * n * (n + 8) + 20000, k, mask, t)
    if out.kind != "ok":
        return None
    acc = np.asarray(out.value[1])
    if not (acc >= 0).any():
        return None
    return acc, t, fam


def large_order_graph(dsw, rng, k=8):
    """A generated graph of order 8 (65 536 vertices; vertex indices beyond 2^15) from a run-limit / GC filter mask."""
    n = 4 ** k
    idx = np.arange(n)
    digits = np.stack([(idx // 4 ** (k - 1 - i)) % 4 for i in range(k)], axis=1)
    gc = ((digits == 1) | (digits == 2)).sum(axis=1)
    run = rng.choice([2, 3])
    ok = np.ones(n, dtype=bool)
    for i in range(k - run):
        same = np.ones(n, dtype=bool)
        for j in range(1, run + 1):
            same &= digits[:, i] == digits[:, i + j]
        ok &= ~same
    lo, hi = rng.choice([(3, 5), (2, 6), (4, 4)])
    ok &= (gc >= lo) & (gc <= hi)
    out = monitored(dsw.connect_coding_graph, 10 ** 9, k, ok, rng.choice([1, 2]))
    if out.kind != "ok":
        return None
    acc = np.asarray(out.value[1])
    return acc if (acc >= 0).any() else None


def repair_budget_reads(n, k):
    """Graph look-up budget, polynomial in the strand length (C10): >= 4x the worst ratio observed on the unchanged tree."""
    return 2 * n + 40 * k * (n + k + 1) + 100


def heap_value(heap):
    """Cases store an unlimited heap as the string 'inf' (JSON has no infinity)."""
    return float("inf") if heap == "inf" else heap


def repair_budget_jumps(n, k, heap):
    heap = heap_value(heap)
    if heap > 1e6:
        heap = 1e4      # "no limit" is only used where few error sites keep the candidate product small; a loop that never ends must still hit the budget
    return 400 * (n + k + 2) * (k + 2) + 60 * int(min(heap, 1e6)) * (n // max(k, 1) + 4) + 20000


def call_repair(dsw, s, acc, start, k, check=None, has_indel=False, heap=1e3, count_reads=False):
    """Returns (kind, value, reads, steps): kind in ok / raised / budget / lookups."""
    n = len(s)
    heap = heap_value(heap)
    proxy = CountingAccessor(acc, read_budget=repair_budget_reads(n, k)) if count_reads else acc
    with clock.budget(repair_budget_jumps(n, k, heap)) as b:
        try:
            v = dsw.repair_dna(s, proxy, start, k, vt_check=check, has_indel=has_indel, heap_size=heap)
            kind = "ok"
        except AccessBudgetExceeded as e:
            kind, v = "lookups", e
        except clock.BudgetExceeded as e:
            kind, v = "budget", e
        except Exception as e:  # noqa
            kind, v = "raised", e
    return kind, v, (proxy.reads if count_reads else None), b.count


def well_formed(res):
    """(candidates, statistics): list of ACGT strings and a tuple of numbers/bools led by the detected-error count."""
    if not (isinstance(res, tuple) and len(res) == 2):
        return False
    cands, stats = res
    if not isinstance(cands, list) or not all(isinstance(c, str) and all(x in NUC for x in c) for c in cands):
        return False
    if not isinstance(stats, (tuple, list)) or len(stats) < 1:
        return False
    try:
        return all(float(x) == float(x) for x in stats) and int(stats[0]) >= 0
    except (TypeError, ValueError):
        return False
