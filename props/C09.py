"""C09 - repair leaves clean strands alone and only returns check-consistent candidates (DESIGN.md section 4, C09)."""
import ast

import numpy as np

from vlib import alias, clock, graphs as G, gens, oracles
from vlib.base import import_dsw
from props._repair import heap_value, generated_graph, call_repair, well_formed

ID = "C09"
LEVEL = "fault_enumeration"
TECHNIQUE = ("runtime monitoring of the real repair_dna on clean, corrupted and random strands: the returned pair is compared with "
             "a walk oracle and with checks recomputed by an independent VT formula; sys.monitoring line probes count which of "
             "the three return statements produced each answer")
LEVEL_TEXT = ("Held on every (graph, start, strand, check, has_indel, heap limit) case of this run. Clean walks must come back "
              "unchanged with zero detected errors (or nothing on a disagreeing check); every return must be sorted, duplicate-"
              "free and check-consistent. Sampled over fault classes with floors on both fallback outcomes and on product-path "
              "cases where the check actually filtered a candidate out.")
LEVEL_NOTE = "Trusts the walk oracle and VT formula in vlib; graphs are arc-subset and generated graphs of order 1..4."
PLAN = {"quick": dict(shards=16, budget=100), "thorough": dict(shards=16, budget=400)}
RULE = ("repair_dna(s, G, v, k, check, has_indel, heap_size) with s in {walks; walks with 1-6 edits anywhere; random strings; "
        "errors in the first / last window}, check in {none, VT(s), VT(original walk), arbitrary}, has_indel on/off, heap_size in "
        "{0, 1, 10, 1e3, 1e4}, G arc-subset or generated, k = 1..4. Verdict: s a walk => ([s], detected 0), or ([], detected 0) "
        "when a supplied check != VT(s); always: candidates strictly increasing and every candidate reproduces the supplied "
        "check. Non-trivial: a check is supplied or the strand is not a walk; distinct = hash of the case."
        ' Also: the identical call repeated after the returned candidate list was scrambled in place, checks passed as numpy.str_, and edit sequences on one accessor object overwritten in place.')
HEAPS = [0, 1, 10, 1e3, 1e3, 1e4]


def setup(ctx):
    import_dsw()
    import dsw.spiderweb as sw
    clock.install(lines=True)
    clock.probe_returns(sw.repair_dna, "repair_dna")


def finish(ctx):
    import dsw.spiderweb as sw
    import dsw.graphized as gz
    for fn in (sw.repair_dna, gz.path_matching):
        seen, total = clock.coverage_of(fn)
        ctx.setadd("executed-lines:" + fn.__name__, seen)
        ctx.notes["statement-lines:" + fn.__name__] = len(total)
    for k, v in clock.S.probe_hits.items():
        ctx.mon("probe-hits:" + k, v)


def _corrupt(rng, w, n_edits, where="any"):
    s = w
    for _ in range(n_edits):
        if not s:
            break
        if where == "first":
            p = rng.randrange(min(3, len(s)))
        elif where == "last":
            p = len(s) - 1 - rng.randrange(min(3, len(s)))
        else:
            p = rng.randrange(len(s))
        op = rng.choice("SSID")
        if op == "S":
            s = s[:p] + rng.choice([c for c in "ACGT" if c != s[p]]) + s[p + 1:]
        elif op == "I":
            s = s[:p] + rng.choice("ACGT") + s[p:]
        elif len(s) > 1:
            s = s[:p] + s[p + 1:]
    return s


def _motif_graph(dsw, rng, k):
    """Generated graph of order k whose mask forbids a few short motifs (and their reverse complements)."""
    motifs = [gens.random_dna(rng, rng.choice([2, 2, 3])) for _ in range(rng.randint(1, 3))]
    motifs += [oracles.revcomp(m) for m in motifs]
    mask = np.array([not any(m in G.kmer(v, k) for m in motifs) for v in range(4 ** k)])
    if not mask.any():
        return None
    try:
        acc = np.asarray(dsw.connect_coding_graph(k, mask, 1)[1])
    except ValueError:
        return None
    return acc if (acc >= 0).any() else None


def generate(ctx):
    rng = ctx.rng
    dsw = import_dsw()
    for _ in range(ctx.pick(6, 60)):
        k = rng.choice([5, 5, 6])
        acc = _motif_graph(dsw, rng, k)
        if acc is None:
            continue
        gcase = dict(gens.graph_case(acc, k), fam="motif-screened")
        live = G.live_vertices(acc)
        for _w in range(ctx.pick(12, 30)):
            start = int(rng.choice(live))
            w = G.random_walk(acc, start, rng.randint(4 * k, 8 * k), rng)
            if len(w) < 4 * k:
                continue
            p1 = rng.randrange(k, len(w) - 2 * k + 1)
            p2 = min(len(w) - 1, p1 + rng.randint(k + 1, 2 * k - 2))     # two errors whose repair chunks overlap
            s = list(w)
            for p in (p1, p2):
                s[p] = rng.choice([c for c in "ACGT" if c != s[p]])
            s = "".join(s)
            for check in {gens.random_dna(rng, 1), gens.random_dna(rng, 1), gens.random_dna(rng, 2), oracles.vt(w, rng.choice([1, 2, 4]))}:
                yield "repair", dict(gcase, start=start, s=s, original=w, check=check, ck="near-pair",
                                     indel=True, heap=rng.choice([1e3, 1e4]), tag="near-pair")
    for _ in range(ctx.pick(30, 300)):
        k = rng.choice([1, 2, 2, 3])
        states, first = [], None
        for _s in range(rng.randint(2, 4)):
            a = gens.arc_graph(rng, k)
            if a is None:
                continue
            if first is None:
                first = int(rng.choice(G.live_vertices(a)))
            states.append(G.acc_to_hex(a))
        if len(states) < 2:
            continue
        accs = [G.hex_to_acc(k, h) for h in states]
        strings = []
        for i, a in enumerate(accs):
            ss = []
            for b in (a, accs[(i + 1) % len(accs)], accs[i - 1]):
                if (b[first] >= 0).any():
                    ss.append(G.random_walk(b, first, rng.randint(k, 4 * k + 6), rng))
            strings.append(ss)
        yield "edit_sequence", dict(k=k, states=states, strings=strings, start=first, indel=rng.random() < 0.5)
    for _ in range(ctx.pick(500, 5000)):
        k = rng.choice([1, 2, 2, 3, 3, 4])
        if rng.random() < 0.5:
            acc = gens.arc_graph(rng, k)
            fam = "arc-subset"
        else:
            g = generated_graph(dsw, rng, k)
            acc = None if g is None else g[0]
            fam = "generated"
        if acc is None:
            continue
        gcase = dict(gens.graph_case(acc, k), fam=fam)
        live = G.live_vertices(acc)
        for _w in range(ctx.pick(4, 6)):
            start = rng.choice(live)
            w = G.random_walk(acc, start, rng.choice([k, k + 1, 2 * k + 3, 5 * k + 4, 8 * k + 6]), rng)
            if len(w) < k:
                continue
            variants = [("walk", w), ("walk", w)]
            for ne in (1, 1, 2, 3, 6):
                variants.append(("edited-%d" % min(ne, 3), _corrupt(rng, w, ne)))
            variants.append(("first-window", _corrupt(rng, w, 1, "first")))
            variants.append(("last-window", _corrupt(rng, w, 1, "last")))
            variants.append(("random", gens.random_dna(rng, max(k, len(w)))))
            for tag, s in variants:
                if len(s) < k:
                    continue
                ck = rng.choice(["none", "own", "own", "original", "original", "arbitrary"] * 4 + ["empty-string"])
                nvt = rng.choice([1, 2, 3, 5])
                check = {"none": None, "own": oracles.vt(s, nvt), "original": oracles.vt(w, nvt),
                         "arbitrary": gens.random_dna(rng, nvt), "empty-string": ""}[ck]
                yield "repair", dict(gcase, start=int(start), s=s, original=w, check=check, ck=ck, indel=rng.random() < 0.6,
                                     heap=rng.choice(HEAPS + (["inf", 10 ** 9] if tag in ("walk", "edited-1", "first-window", "last-window") else [])), tag=tag, npstr=rng.random() < 0.15, again=rng.random() < 0.15, layout=rng.choice([None] * 6 + ["F", "i32", "i16"]), npargs=rng.random() < 0.1)


def check_edit_sequence(ctx, case):
    """G2: the same accessor object is overwritten in place between repairs; a clean walk of the *current* content
    must come back alone with zero detected errors, and what is no walk of the current content must not."""
    k = case["k"]
    live = G.hex_to_acc(k, case["states"][0])
    for i, arcs in enumerate(case["states"]):
        live[...] = G.hex_to_acc(k, arcs)
        for s in case["strings"][i]:
            if len(s) < k:
                continue
            sub = dict(k=k, arcs=arcs, start=case["start"], s=s, check=None, ck="none", indel=case["indel"], heap=1e3, tag="edit-sequence",
                       original=s, fam="edit-sequence")
            before = ctx.violation_count
            check_repair(ctx, sub, acc_obj=live)
            if ctx.violation_count > before:
                ctx.violations[-1]["check"], ctx.violations[-1]["case"] = "edit_sequence", case
                return
    ctx.cls("edit sequences (same accessor object overwritten in place)")
    ctx.done("edit_sequence", case, True)


def check_repair(ctx, case, acc_obj=None):
    dsw = import_dsw()
    acc = gens.acc_of(case) if acc_obj is None else acc_obj
    if acc_obj is None and case.get("layout"):
        acc = gens.as_layout(acc, case["layout"])        # same values, column-major memory / int32 / int16 entries
        ctx.cls("accessor layout|" + case["layout"])
    k, s, start, check = case["k"], case["s"], case["start"], case["check"]
    if case.get("npargs"):
        s, start, k = np.str_(s), np.int32(start), np.int64(k)   # the strand out of a numpy array of reads, indices out of numpy
        ctx.cls("strand / start / order passed as numpy scalars")
    passed = np.str_(check) if (check is not None and case.get("npstr")) else check
    kind, res, _r, _steps = call_repair(dsw, s, acc, start, k, check=passed, has_indel=case["indel"], heap=case["heap"])
    if kind == "ok" and well_formed(res) and acc_obj is None and case.get("again"):
        # G1: scramble the returned candidates, repeat the identical call on the same accessor object
        fn = lambda: dsw.repair_dna(s, acc, start, k, vt_check=passed, has_indel=case["indel"], heap_size=heap_value(case["heap"]))  # noqa
        first = fn()
        checked, same, second = alias.repeat_after_scramble(lambda: fn(), (), {}, first)
        if checked:
            ctx.cls("identical call repeated after its result was scrambled")
            if not same:
                ctx.fail("repeated-call-returns-scrambled-result", "the same repair_dna call, repeated after the caller edited the first "
                         "result in place, returned %s" % (repr(second)[:200]))
    if passed is not check:
        ctx.cls("check passed as numpy.str_")
    where = "k=%d start=%s s=%s check=%s has_indel=%s heap=%s graph=%s" % (k, G.kmer(start, k), s, check, case["indel"], case["heap"], case["arcs"])
    is_walk = G.walk(acc, start, s)["ok"]
    nontrivial = check is not None or not is_walk
    if kind != "ok":
        ctx.cls("did-not-return (judged by C10)")
        if is_walk:
            ctx.fail("clean-strand-" + kind, "repair_dna on a clean walk: %s; %s" % (res, where))
        return ctx.done("repair", case, nontrivial)
    if not well_formed(res):
        ctx.fail("malformed-result", "repair_dna returned %r; %s" % (res, where))
        return ctx.done("repair", case, nontrivial)
    cands, stats = res
    detected = int(stats[0])
    if is_walk:
        own = check is None or check == oracles.vt(s, len(check))
        want = [s] if own else []
        if cands != want or detected != 0:
            ctx.fail("clean-strand-altered", "the strand is a walk%s but repair returned %s with %d detected error(s); %s" % (
                "" if check is None else (" and the check %s" % ("matches" if own else "disagrees")), cands[:5], detected, where))
        ctx.cls("clean|%s" % ("no check" if check is None else "check matches" if own else "check disagrees"))
    if any(not (a < b) for a, b in zip(cands, cands[1:])):
        ctx.fail("not-sorted-or-duplicates", "candidate list is not strictly increasing: %s; %s" % (cands[:6], where))
    if check is not None:
        bad = [c for c in cands if oracles.vt(c, len(check)) != check]
        if bad:
            ctx.fail("candidate-contradicts-check", "candidate %s has check %s, supplied %s (%d of %d candidates); %s" % (
                bad[0], oracles.vt(bad[0], len(check)), check, len(bad), len(cands), where))
    # which path answered?  (observable in the result: the third statistic is 0 exactly on the fallback path)
    fallback = len(stats) >= 3 and float(stats[2]) == 0
    if not is_walk:
        if fallback:
            if check is not None:
                ctx.cls("fallback|check %s" % ("matches" if check == oracles.vt(s, len(check)) else "mismatches"))
            else:
                ctx.cls("fallback|no check")
        else:
            if check is not None:
                ctx.cls("product|with check")
                k2, r2, _a, _b = call_repair(dsw, s, acc, start, k, check=None, has_indel=case["indel"], heap=case["heap"])
                if k2 == "ok" and well_formed(r2) and len(r2[0]) > len(cands):
                    ctx.cls("product|check filtered a candidate out")
                    if not set(cands) <= set(r2[0]):
                        ctx.fail("check-added-candidates", "with the check the candidates %s are not a subset of those without it; %s" % (cands[:5], where))
            else:
                ctx.cls("product|no check")
    ctx.cls("string|" + case["tag"])
    ctx.cls("heap|%s" % case["heap"])
    if acc_obj is None:
        ctx.done("repair", case, nontrivial)
    else:
        ctx.evaluations += 1


CHECKS = {"repair": check_repair, "edit_sequence": check_edit_sequence}


def floors(agg, tier):
    out = []
    c = agg["classes"]
    for name, need in (("clean|no check", 200), ("clean|check matches", 200), ("clean|check disagrees", 100),
                       ("fallback|check mismatches", 100), ("fallback|check matches", 100), ("product|with check", 100),
                       ("product|check filtered a candidate out", 30), ("string|last-window", 100), ("string|first-window", 100), ("string|near-pair", 600)):
        if c.get(name, 0) < need:
            out.append("%s observed %d < %d" % (name, c.get(name, 0), need))
    for name, need in (("edit sequences (same accessor object overwritten in place)", 100), ("check passed as numpy.str_", 500), ("accessor layout|F", 500), ("accessor layout|i16", 300), ("strand / start / order passed as numpy scalars", 300),
                       ("identical call repeated after its result was scrambled", 500)):
        if c.get(name, 0) < need:
            out.append("%s observed %d < %d" % (name, c.get(name, 0), need))
    hits = [k for k in agg["monitors"] if k.startswith("probe-hits:repair_dna:return")]
    if len(hits) < 3:
        out.append("only %d of the return statements of repair_dna were observed by the line probes" % len(hits))
    return out
