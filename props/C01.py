"""C01 - encode then decode returns the original message (DESIGN.md section 4, C01)."""
import numpy as np

from vlib import clock, graphs as G, gens, oracles
from vlib.base import import_dsw
from vlib.coding import (table_of, rand_table_spec, encode_budget, decode_budget, monitored, ArgGuard, freeze_args,
                         is_strand, bits_equal)

ID = "C01"
LEVEL = "exploration"
TECHNIQUE = "runtime monitoring: round-trip history checker on the real encode/decode under a sys.monitoring loop clock, read-only argument traps and argument digests; walk oracle"
LEVEL_TEXT = ("Held on every generated (graph, start, message, mode, table, check) case of this run; the universal claim is "
              "sampled, not proved. Boundary classes (out-degree x mode x table x check, message classes) are populated "
              "by construction and have floors below which the run is inconclusive.")
LEVEL_NOTE = ("Trusts the harness's walk oracle and graph pruning routine; graphs of order <= 4 (quick) / 6 (thorough), messages <= 400 (quick) / 2048 (thorough) bits; "
              "numpy bool messages excluded as unsupported input.")
PLAN = {"quick": dict(shards=16, budget=100), "thorough": dict(shards=16, budget=420)}
RULE = ("Client-side history of two events per case: s = encode(m, G, v, mode, table, vt) then decode(s, len(m), G, v, "
        "mode, table, check) on the real functions, under the JUMP clock, with read-only numpy arguments and argument/"
        "global digests. Graphs: random arc subsets of the order-k de Bruijn graph pruned by an independent fixed-point "
        "routine to well-formed coding graphs (out-degrees 1-4 mixed; no out-degree 3 for fast mode), oracle-built "
        "closed sub-graphs for t=1..4, the complete graph; every live start vertex for k<=2, sampled otherwise; message "
        "classes empty/len1-3/zeros/ones/leading zeros/trailing 1/2^n+-1/odd/random; element types int64/int32/int8/"
        "uint8/list; tables none/random/constant; check lengths 0,1,2,5,33 and random 1..70. A case is non-trivial when the message is "
        "non-empty and (the graph has >= 2 distinct out-degrees, or a table, or a check is used); distinct = distinct "
        "canonical hash of (graph, start, message, mode, table, check length, dtype)."
        ' Also: messages beyond 2100 bits under the int<->str trap, buffer twins (uint8 bytes of a short int64 message), decimal-round values d*10^e, accessors in Fortran / strided layout and with int32 / int16 entries, widths as numpy int64/uint16/uint64, start vertices as numpy int64 / uint8 / uint16 / int16 / int32 / uint32, need_path / verbose on, and edit sequences in which one accessor object and one table object are reused while the accessor is overwritten in place between round trips.')
ASSUMPTIONS = ["message element types limited to int64/int32/int8/uint8 arrays and Python int lists (numpy bool arrays "
               "are not a supported message type)"]

DTYPES = ["int64", "int64", "int32", "int8", "uint8", "list"]
VTS = [0, 0, 0, 1, 2, 5, 33]


def setup(ctx):
    import_dsw()
    clock.install(lines=False)


def generate(ctx):
    rng = ctx.rng
    yield from _more(ctx)
    ks = ctx.pick([1, 2, 2, 3, 3, 4], [1, 2, 2, 3, 3, 4, 4, 5, 5, 6])
    max_len = ctx.pick(64, 256)
    n_graphs = ctx.pick(110, 1200)
    for gi in range(n_graphs):
        k = rng.choice(ks)
        fast = rng.random() < 0.45
        fam = rng.choice(["arc", "arc", "arc", "closed", "closed", "complete"])
        if fam == "arc":
            acc = gens.arc_graph(rng, k, forbid3=fast)
        elif fam == "closed":
            t = rng.choice([1, 1, 2, 3, 4] if not fast else [1, 2, 4])
            acc, _ = gens.closed_graph(rng, k, t)
            if acc is not None and fast:
                acc = G.prune_arcs(acc, k, forbid3=True, rng=rng)
                if not (acc >= 0).any():
                    acc = None
        else:
            acc = G.complete(k)
        if acc is None:
            continue
        gcase = gens.graph_case(acc, k)
        live = G.live_vertices(acc)
        starts = live if k <= 2 else rng.sample(live, min(len(live), 4))
        per_start = ctx.pick(6, 10) if k <= 2 else ctx.pick(10, 16)
        for start in starts:
            for _ in range(per_start):
                bits, mclass = gens.message(rng, max_len if rng.random() < 0.92 else ctx.pick(400, 2048) if rng.random() < 0.3 else ctx.pick(160, 700))
                yield "roundtrip", dict(gcase, start=int(start), bits=bits, fast=fast, table=rand_table_spec(rng),
                                        layout=rng.choice([None] * 8 + ["F", "strided", "i32", "i16"]),
                                        wtype=rng.choice(["int"] * 6 + ["int64", "uint16", "uint64"]),
                                        path=rng.random() < 0.1, verbose=rng.random() < 0.05, npstart=rng.choice([None] * 4 + ["int64", "int64", "uint8", "uint8", "uint16", "int32", "uint32", "int16"]),
                                        vt=rng.choice(VTS) if rng.random() < 0.7 else rng.randint(1, 70), dtype=rng.choice(DTYPES), mclass=mclass, fam=fam)


def _more(ctx):
    """Long messages (beyond 2100 bits, where the int<->str trap bites), buffer twins and edit sequences."""
    rng = ctx.rng
    for _ in range(ctx.pick(1, 4)):
        k = rng.choice([1, 2, 3])
        acc = G.complete(k) if rng.random() < 0.5 else gens.arc_graph(rng, k)
        if acc is None:
            continue
        start = rng.choice(G.live_vertices(acc))
        bits, _c = gens.message(rng, 8, "long")
        yield "roundtrip", dict(gens.graph_case(acc, k), start=int(start), bits=bits, fast=False, table=None, vt=rng.choice([0, 3]),
                                dtype="int64", mclass="long", fam="long")
    for _ in range(ctx.pick(6, 40)):
        # buffer twins: a uint8 message whose raw bytes equal those of a short int64 message, encoded one after the other
        k = rng.choice([1, 2, 3])
        acc = gens.arc_graph(rng, k)
        if acc is None:
            continue
        start = int(rng.choice(G.live_vertices(acc)))
        short = [rng.randint(0, 1) for _ in range(rng.randint(1, 6))]
        raw = list(np.array(short, dtype="int64").tobytes())
        if all(b in (0, 1) for b in raw):
            base = dict(gens.graph_case(acc, k), start=start, fast=False, table=None, vt=0, fam="twin")
            first, second = (raw, "uint8"), (short, "int64")
            if rng.random() < 0.5:
                first, second = second, first
            yield "roundtrip", dict(base, bits=first[0], dtype=first[1], mclass="twin")
            yield "roundtrip", dict(base, bits=second[0], dtype=second[1], mclass="twin")
    for _ in range(ctx.pick(25, 250)):
        k = rng.choice([1, 2, 2, 3])
        fast = rng.random() < 0.4
        states = []
        for _s in range(rng.randint(2, 4)):
            a = gens.arc_graph(rng, k, forbid3=fast)
            if a is not None:
                states.append(dict(arcs=G.acc_to_hex(a), start=int(rng.choice(G.live_vertices(a)))))
        if len(states) >= 2:
            yield "edit_sequence", dict(k=k, fast=fast, states=states, table=rand_table_spec(rng), vt=rng.choice([0, 0, 3]),
                                        msgs=[gens.message(rng, 40)[0] for _ in states], dtype="int64")


def check_edit_sequence(ctx, case):
    """G2: one accessor object, overwritten in place between round trips (`accessor[...] = other graph`, the way
    remove_nasty_arc or a reused buffer changes it).  Every round trip must be the one of the *current* content."""
    k = case["k"]
    live = G.hex_to_acc(k, case["states"][0]["arcs"])     # the one object the library sees throughout
    shuf_obj = table_of(case["table"], k)
    shuf_before = None if shuf_obj is None else shuf_obj.copy()
    trng = __import__("random").Random(len(case["states"]) * 7919 + k)
    for i, st in enumerate(case["states"]):
        live[...] = G.hex_to_acc(k, st["arcs"])
        if shuf_obj is not None and i > 0:
            # the caller re-draws some rows of the *same* table object between round trips
            for _r in range(max(1, len(shuf_obj) // 3)):
                row = shuf_obj[trng.randrange(len(shuf_obj))]
                perm = row.tolist()
                trng.shuffle(perm)
                row[...] = perm
            shuf_before = shuf_obj.copy()
        sub = dict(k=k, arcs=st["arcs"], start=st["start"], bits=case["msgs"][i], fast=case["fast"], table=case["table"],
                   vt=case["vt"], dtype=case["dtype"], mclass="edit-sequence", fam="edit-sequence")
        before = ctx.violation_count
        check_roundtrip(ctx, sub, acc_obj=live, name="edit_sequence", shuf_obj=shuf_obj)
        if shuf_obj is not None and not np.array_equal(shuf_obj, shuf_before):
            ctx.fail("argument-modified", "the shuffle table was changed in place by encode/decode (state %d)" % i)
        if ctx.violation_count > before:
            ctx.violations[-1]["check"], ctx.violations[-1]["case"] = "edit_sequence", case
            break
        ctx.evaluations += 1
    ctx.cls("edit sequences (same accessor object overwritten in place)")
    ctx.done("edit_sequence", case, True)


def check_roundtrip(ctx, case, acc_obj=None, name="roundtrip", shuf_obj=None):
    """acc_obj: the live accessor object of an edit sequence (passed as is, so that state keyed on the identity of the
    array is exercised); otherwise a fresh write-protected copy is built from the case."""
    dsw = import_dsw()
    k, start, bits, fast, vt = case["k"], case["start"], case["bits"], case["fast"], case["vt"]
    acc = gens.acc_of(case) if acc_obj is None else acc_obj
    shuf = table_of(case["table"], k)
    msg = gens.as_message(bits, case["dtype"])
    L = len(bits)
    degs_all = set(G.out_degrees(acc).tolist()) - {0}
    nontrivial = L > 0 and (len(degs_all) >= 2 or shuf is not None or vt > 0)
    f_acc, f_shuf, f_msg = freeze_args(acc, shuf, msg)
    if acc_obj is not None:
        f_acc = acc_obj
        f_shuf = shuf_obj             # the same (writable) table object through the whole sequence
    elif case.get("layout"):
        f_acc = gens.as_layout(acc, case["layout"])     # same values: column-major / strided memory, int32 / int16 entries
        f_acc.flags.writeable = False
    width = {"int": int, "int64": np.int64, "uint16": np.uint16, "uint64": np.uint64}[case.get("wtype", "int")](len(bits))
    guard = ArgGuard(message=f_msg, accessor=f_acc, shuffles=f_shuf)
    live = int((G.out_degrees(acc) > 0).sum())

    if case.get("npstart"):
        # start vertices usually come out of numpy arrays (obtain_vertices, argmax, a uint8 / uint16 index table)
        typ = getattr(np, case["npstart"] if isinstance(case["npstart"], str) else "int64")
        if start <= np.iinfo(typ).max:
            start = typ(start)
            ctx.cls("start type|" + typ.__name__)
    import contextlib
    import io
    with contextlib.redirect_stdout(io.StringIO()):
        enc = monitored(dsw.encode, encode_budget(L, live), f_msg, f_acc, start, is_faster=fast, vt_length=vt,
                        shuffles=f_shuf, need_path=bool(case.get("path")), verbose=bool(case.get("verbose")))
    if case.get("path") and enc.kind == "ok":
        # with need_path the record of the state path is appended; the strand (and check) come first
        if not (isinstance(enc.value, tuple) and len(enc.value) == (3 if vt > 0 else 2)):
            ctx.fail("encode-shape", "need_path=True: encode returned %r" % (enc.value,))
            return ctx.done(name, case, nontrivial)
        enc.value = enc.value[:-1] if vt > 0 else enc.value[0]
        ctx.cls("need_path")
    ctx.obs("encode_steps_over_budget", enc.steps / encode_budget(L, live))
    if enc.kind != "ok":
        ctx.fail("encode-" + enc.kind, "encode " + enc.describe())
        return ctx.done(name, case, nontrivial)
    out = enc.value
    if vt > 0:
        if not (isinstance(out, tuple) and len(out) == 2 and is_strand(out[0]) and is_strand(out[1])
                and len(out[1]) == vt):
            ctx.fail("encode-shape", "with vt_length=%d encode returned %r" % (vt, out))
            return ctx.done(name, case, nontrivial)
        strand, check = out
    else:
        if not is_strand(out):
            ctx.fail("encode-shape", "encode returned %r" % (out,))
            return ctx.done(name, case, nontrivial)
        strand, check = out, None
    w = G.walk(acc, start, strand)
    if not w["ok"]:
        ctx.fail("not-a-walk", "strand %s leaves the graph at position %d (%s)" % (strand, w["pos"], w["reason"]))
    with contextlib.redirect_stdout(io.StringIO()):
        dec = monitored(dsw.decode, decode_budget(len(strand), L), strand, width, f_acc, start, is_faster=fast,
                        vt_check=check, shuffles=f_shuf, verbose=bool(case.get("verbose")))
    ctx.obs("decode_steps_over_budget", dec.steps / decode_budget(len(strand), L))
    if dec.kind != "ok":
        ctx.fail("decode-" + dec.kind, "decode(%s) %s" % (strand, dec.describe()))
    elif not bits_equal(dec.value, bits):
        ctx.fail("roundtrip-mismatch", "message %s -> strand %s -> %s" % (bits, strand, list(map(int, dec.value))
                                                                         if hasattr(dec.value, "__iter__") else dec.value))
    ch = guard.changed()
    if ch:
        ctx.fail("argument-modified", "changed after the call pair: %s" % ch)
    mode = "fast" if fast else "normal"
    for d in set(w["degs"]):
        ctx.cls("%s|deg%d|table%d|check%d" % (mode, d, int(shuf is not None), int(vt > 0)))
    ctx.cls("msg|" + case["mclass"])
    ctx.cls("dtype|" + case["dtype"])
    ctx.cls("family|" + case["fam"])
    ctx.cls("k|%d" % k)
    ctx.cls("vt|%s" % (vt if vt in VTS else "other"))
    if L and L % 2 and fast:
        ctx.cls("fast-odd-length")
    ctx.obs("max_message_bits", L)
    if case.get("layout"):
        ctx.cls("accessor layout|" + case["layout"])
    if case.get("wtype", "int") != "int":
        ctx.cls("width type|" + case["wtype"])
    if name == "roundtrip":
        ctx.done(name, case, nontrivial)
    return nontrivial


CHECKS = {"roundtrip": check_roundtrip, "edit_sequence": check_edit_sequence}


def floors(agg, tier):
    need = 20
    out = []
    for mode, degs in (("normal", (1, 2, 3, 4)), ("fast", (1, 2, 4))):
        for d in degs:
            for t in (0, 1):
                for c in (0, 1):
                    name = "%s|deg%d|table%d|check%d" % (mode, d, t, c)
                    if agg["classes"].get(name, 0) < need:
                        out.append("%s observed %d < %d" % (name, agg["classes"].get(name, 0), need))
    for name, need2 in (("edit sequences (same accessor object overwritten in place)", 100), ("msg|long", 8), ("msg|twin", 20),
                        ("msg|dec-round", 100), ("accessor layout|F", 100), ("accessor layout|i16", 100), ("width type|uint16", 100), ("start type|uint8", 100), ("start type|uint16", 100)):
        if agg["classes"].get(name, 0) < need2:
            out.append("%s observed %d < %d" % (name, agg["classes"].get(name, 0), need2))
    for m in ("empty", "zeros", "leadzero", "odd"):
        if agg["classes"].get("msg|" + m, 0) < need:
            out.append("message class %s observed %d" % (m, agg["classes"].get("msg|" + m, 0)))
    return out
