"""C11 - vertex discovery and the valid graph mirror the filter exactly (DESIGN.md section 4, C11)."""
import itertools
import random

import numpy as np

from vlib import alias, clock, graphs as G, gens
from vlib.base import import_dsw
from vlib.coding import monitored, ArgGuard
from vlib.proxies import frozen

ID = "C11"
LEVEL = "exploration"
TECHNIQUE = ("runtime monitoring of the real find_vertices / connect_valid_graph: a spy filter records the exact strings and call "
             "style the library uses; results compared with k-mers enumerated by string arithmetic and an induced-sub-graph "
             "oracle on sets; exhaustive over all 65 536 order-2 masks")
LEVEL_TEXT = ("Exhaustive for the valid graph at k = 2 (every mask x bool/int64); sampled masks for k = 1,3,4,5; filters: a grid of "
              "LocalBioFilter settings and user filters written exactly as docs/source/customization.rst prescribes (valid(self, "
              "dna_string)), with other parameter names, positional-only parameters and bool / numpy.bool_ / 0-1 int results, "
              "asymmetric predicates so reversed or rotated k-mers show; k = 1..6.")
LEVEL_NOTE = "Trusts itertools.product enumeration of k-mers and the induced-sub-graph construction in vlib/graphs.py."
PLAN = {"quick": dict(shards=16, budget=100), "thorough": dict(shards=16, budget=300)}
EXHAUSTIVE = ["valid graph: all 65536 order-2 masks x {bool,int64}"]
RULE = ("find_vertices(k, f) for f in {LocalBioFilter grid, documented user filters: forbidden k-mer sets, first != last symbol, "
        "position-dependent, GC window from the documentation, parity, accept-all/none/one} x signature styles x result types, "
        "k = 1..6: mask[i] == bool(f(kmer_i)) for all i, ValueError iff none accepted, no other exception. "
        "connect_valid_graph(k, mask): entry [u][j] == succ_j(u) iff mask[u] and mask[succ_j(u)], else -1; ValueError iff the "
        "mask is empty. Non-trivial: the filter (mask) accepts some but not all vertices; distinct = hash of the case."
        ' Also: filters accepting exactly 1, 2, 3, 5 k-mers at every order 1..6, user filters that subclass LocalBioFilter with a strand-asymmetric extra rule, one filter object tightened in place between calls, an unrelated coding-graph call on another mask just before connect_valid_graph, and calls repeated after their result was scrambled.')


def setup(ctx):
    import_dsw()
    clock.install(lines=False)


# ---- user-defined filters, written against the documented interface ------------------------------------------------

def _pred(spec, k):
    kind = spec["pred"]
    if kind == "forbidden":
        r = random.Random(spec["seed"])
        bad = {G.kmer(v, k) for v in range(4 ** k) if r.random() < spec["p"]}
        return lambda s: s not in bad
    if kind == "first-ne-last":
        return lambda s: s[0] != s[-1] or len(s) == 1
    if kind == "positional":
        return lambda s: s[0] in "AC" and s[-1] != "T"
    if kind == "prefix":
        return lambda s: not s.startswith("G")
    if kind == "first-a":
        return lambda s: s.startswith("A")
    if kind == "parity":
        return lambda s: (sum("ACGT".index(c) * (i + 1) for i, c in enumerate(s)) % 3) != 0
    if kind == "all":
        return lambda s: True
    if kind == "none":
        return lambda s: False
    if kind == "one":
        target = G.kmer(spec["seed"] % (4 ** k), k)
        return lambda s: s == target
    if kind == "few":
        r = random.Random(spec["seed"])
        keep = {G.kmer(r.randrange(4 ** k), k) for _ in range(spec.get("count", 1))}
        return lambda s: s in keep
    if kind == "doc-gc":
        w, bias = spec["w"], spec["bias"]

        def regionalized(dna_string):  # the documentation's RegionalizedGCFilter
            if len(dna_string) >= w:
                for index in range(len(dna_string) - w + 1):
                    sub = dna_string[index: index + w]
                    gc = sub.count("C") + sub.count("G")
                    if gc > (0.5 + bias) * w:
                        return False
                    if gc < (0.5 - bias) * w:
                        return False
            else:
                gc = dna_string.count("C") + dna_string.count("G")
                if gc > (0.5 + bias) * w:
                    return False
                at = dna_string.count("A") + dna_string.count("T")
                if at > (0.5 + bias) * w:
                    return False
            return True
        return regionalized
    raise ValueError(kind)


def make_user_filter(dsw, spec, k, log):
    pred = _pred(spec, k)
    conv = {"bool": bool, "npbool": np.bool_, "int": int, "uint8": np.uint8, "int8": np.int8, "uint16": np.uint16}[spec["ret"]]
    style = spec["style"]

    def body(args, kwargs, s):
        log.append((s, len(args), tuple(sorted(kwargs))))
        return conv(pred(s))

    if style == "documented":
        class UserFilter(dsw.DefaultBioFilter):
            def __init__(self):
                super().__init__(screen_name="user")

            def valid(self, dna_string):
                return body((dna_string,), {}, dna_string)
    elif style == "dna_sequence":
        class UserFilter(dsw.DefaultBioFilter):
            def __init__(self):
                super().__init__(screen_name="user")

            def valid(self, dna_sequence):
                return body((dna_sequence,), {}, dna_sequence)
    else:
        class UserFilter(dsw.DefaultBioFilter):
            def __init__(self):
                super().__init__(screen_name="user")

            def valid(self, s, /):
                return body((s,), {}, s)
    return UserFilter(), pred


class _Asym:
    """Built lazily: a user filter that *subclasses LocalBioFilter* and adds a rule that is not strand-symmetric."""
    cls = None


def asym_filter(dsw, k, cfg, banned):
    if _Asym.cls is None:
        class AsymmetricLocalFilter(dsw.LocalBioFilter):
            def __init__(self, banned_words, **kw):
                super().__init__(**kw)
                self.banned_words = list(banned_words)

            def valid(self, dna_sequence, only_last=True):
                if not super().valid(dna_sequence, only_last=only_last):
                    return False
                seen = dna_sequence[-self.observed_length:] if only_last else dna_sequence
                return not any(w in seen for w in self.banned_words)     # e.g. forbids GGG but allows CCC
        _Asym.cls = AsymmetricLocalFilter
    return _Asym.cls(banned, observed_length=k, max_homopolymer_runs=cfg["run"], gc_range=cfg["gc"], undesired_motifs=cfg["motifs"])


def generate(ctx):
    rng = ctx.rng
    j = 0
    for k in range(1, 9):                      # filters accepting exactly 1, 2, 3 and 5 k-mers, at every order 1..8
        for count in ((1, 2, 3, 5) if k <= 6 else (1, 3)):
            if ctx.mine(j):
                yield "find", dict(k=k, kind="user", spec=dict(pred="few", seed=rng.getrandbits(30), count=count, p=0, w=1, bias=0,
                                                              ret=rng.choice(["bool", "npbool", "int"]), style="documented"))
            j += 1
    for _ in range(ctx.pick(20, 200)):
        k = rng.choice([2, 3, 3, 4])
        cfg = dict(run=rng.choice([None, 2, 3]), gc=rng.choice([None, [0.25, 0.75], [0.0, 1.0]]), motifs=None)
        if cfg["run"] is not None:
            cfg["run"] = min(cfg["run"], k)
        w = rng.choice(["GGG", "GG", "AC", "TTG", "CAT"])[:k]
        yield "find", dict(k=k, kind="asym", cfg=cfg, banned=[w])
    for _ in range(ctx.pick(20, 200)):
        k = rng.choice([2, 3, 4])
        yield "filter_sequence", dict(k=k, run0=rng.choice([None, min(3, k), 2]), run1=rng.choice([1, 2]), motif=gens.random_dna(rng, rng.randint(1, k)),
                                      gc=rng.choice([None, [0.25, 0.75]]))
    for m in range(65536):
        if ctx.mine(m):
            yield "valid_graph", dict(k=2, mask="%x" % m, dtype="bool", fam="exhaustive")
            yield "valid_graph", dict(k=2, mask="%x" % m, dtype="int64", fam="exhaustive")
    ctx.exhausted[EXHAUSTIVE[0]] = True
    for _ in range(ctx.pick(600, 5000)):
        k = rng.choice(ctx.pick([1, 3, 3, 4], [1, 3, 4, 4, 5, 5]))
        mask = gens.rand_mask(rng, k, rng.choice([0.02, 0.2, 0.5, 0.8, 0.98, 1.0]))
        yield "valid_graph", dict(k=k, mask=G.mask_to_hex(mask), dtype=rng.choice(["bool", "int64", "int8", "uint8", "truthy", "float64"]), fam="random")
    preds = ["forbidden", "forbidden", "first-ne-last", "positional", "prefix", "parity", "all", "none", "one", "doc-gc"]
    for _ in range(ctx.pick(600, 5000)):
        k = rng.choice(ctx.pick([1, 2, 3, 4, 5], [1, 2, 3, 4, 5, 6]))
        if rng.random() < 0.45:
            run = rng.choice([None] + list(range(0, k + 1)))
            gc = rng.choice([None, [0.0, 1.0], [0.5, 0.5], [0.25, 0.75], [0.0, 0.5], [0.75, 0.25], [0.4, 0.6]])
            if rng.random() < 0.5:     # bounds on a 0.05 grid (the oracle here is the filter itself applied to full k-mers)
                a, b = sorted(rng.sample(range(0, 21), 2))
                gc = [a / 20, b / 20]
            motifs = rng.choice([None, None, [gens.random_dna(rng, rng.randint(1, k))], [gens.random_dna(rng, rng.randint(1, k)) for _ in range(2)]])
            yield "find", dict(k=k, kind="local", cfg=dict(run=run, gc=gc, motifs=motifs))
        else:
            yield "find", dict(k=k, kind="user", spec=dict(pred=rng.choice(preds), seed=rng.getrandbits(30), p=rng.choice([0.1, 0.5, 0.9]),
                                                           w=rng.randint(1, k + 1), bias=rng.choice([0.0, 0.1, 0.25, 0.5]),
                                                           ret=rng.choice(["bool", "bool", "npbool", "int", "uint8", "int8", "uint16"]),
                                                           style=rng.choice(["documented", "documented", "dna_sequence", "posonly"])))


def check_valid_graph(ctx, case):
    dsw = import_dsw()
    k = case["k"]
    n = 4 ** k
    mask = G.hex_to_mask(k, case["mask"], dtype=case["dtype"] if case["dtype"] != "truthy" else "int64")
    if case["dtype"] == "truthy":      # marked = any non-zero value (a sum of masks, counts, weights)
        mask = mask * np.array([ctx.rng.choice([1, 2, 3, 7]) for _ in range(n)])
    S = {i for i in range(n) if mask[i]}
    fm = frozen(mask)
    guard = ArgGuard(vertices=fm)
    if ctx.rng.random() < (0.02 if case["fam"] == "exhaustive" else 0.5):
        # G3 noise: an unrelated generation call of the same order, on another mask, just before the checked call
        other = np.array([ctx.rng.random() < 0.6 for _ in range(n)])
        try:
            dsw.connect_coding_graph(k, other, ctx.rng.choice([1, 2]))
        except Exception:  # noqa - not the call under observation
            pass
        ctx.cls("valid-graph|preceded by an unrelated coding-graph call")
    if ctx.rng.random() < (0.02 if case["fam"] == "exhaustive" else 0.3):
        # G3 noise: a complete accessor of the same order was requested earlier and edited in place by its owner
        for comp in (dsw.get_complete_accessor(k), dsw.get_complete_accessor(observed_length=k)):   # both calling styles
            for _e in range(3):
                comp[ctx.rng.randrange(n), ctx.rng.randrange(4)] = -1
        ctx.cls("valid-graph|preceded by an edited complete accessor")
    out = monitored(dsw.connect_valid_graph, 200 * n + 5000, k, fm)
    if out.kind == "ok" and ctx.rng.random() < 0.05:
        checked, same, second = alias.repeat_after_scramble(dsw.connect_valid_graph, (k, fm), {}, out.value)   # G1
        if checked:
            ctx.cls("valid graph repeated after the first result was scrambled")
            out = monitored(dsw.connect_valid_graph, 200 * n + 5000, k, fm)
    where = "connect_valid_graph(k=%d, mask=%s as %s)" % (k, case["mask"], case["dtype"])
    if not S:
        if out.kind == "ok":
            ctx.fail("empty-mask-accepted", "%s returned for an empty mask" % where)
        elif out.kind == "budget" or not isinstance(out.exc, ValueError):
            ctx.fail("empty-mask-wrong-exception", "%s %s" % (where, out.describe()))
        ctx.cls("valid-graph|empty mask")
    elif out.kind != "ok":
        if out.kind == "raised" and "read-only" in str(out.exc):
            ctx.fail("mask-written-in-place", "%s wrote into its mask: %s" % (where, out.exc))
        else:
            ctx.fail("valid-graph-" + out.kind, "%s %s" % (where, out.describe()))
    else:
        acc = np.asarray(out.value)
        want = G.induced(k, S)
        if acc.shape != (n, 4) or not np.array_equal(acc, want):
            diff = [] if acc.shape != (n, 4) else np.argwhere(acc != want)[:4].tolist()
            ctx.fail("valid-graph-differs", "%s: differs from the induced sub-graph at (vertex, column) %s" % (where, diff))
        ctx.cls("valid-graph|non-empty mask")
    if guard.changed():
        ctx.fail("argument-modified", "%s changed %s" % (where, guard.changed()))
    ctx.done("valid_graph", case, 0 < len(S) < n)


def check_find(ctx, case):
    dsw = import_dsw()
    k = case["k"]
    kmers = ["".join(t) for t in itertools.product("ACGT", repeat=k)]
    log = []
    if case["kind"] == "asym":
        f = asym_filter(dsw, k, case["cfg"], case["banned"])
        want = [bool(f.valid(s)) for s in kmers]
        what = "subclass of LocalBioFilter(%s) that also bans %s" % (case["cfg"], case["banned"])
    elif case["kind"] == "local":
        cfg = case["cfg"]
        try:
            f = dsw.LocalBioFilter(observed_length=k, max_homopolymer_runs=cfg["run"], gc_range=cfg["gc"], undesired_motifs=cfg["motifs"])
        except ValueError:
            return
        want = [bool(f.valid(s)) for s in kmers]
        what = "LocalBioFilter(k=%d, %s)" % (k, cfg)
    else:
        f, pred = make_user_filter(dsw, case["spec"], k, log)
        want = [bool(pred(s)) for s in kmers]
        what = "user filter %s" % case["spec"]
    out = monitored(dsw.find_vertices, 400 * 4 ** k + 5000, k, f)
    if out.kind == "ok" and ctx.rng.random() < 0.3:
        checked, same, second = alias.repeat_after_scramble(dsw.find_vertices, (k, f), {}, out.value)   # G1
        if checked:
            ctx.cls("find repeated after the first mask was scrambled")
            out = monitored(dsw.find_vertices, 400 * 4 ** k + 5000, k, f)
    if not any(want):
        if out.kind == "ok":
            ctx.fail("accept-none-returned", "find_vertices(k=%d, %s) returned although the filter accepts no k-mer" % (k, what))
        elif out.kind == "budget" or not isinstance(out.exc, ValueError):
            ctx.fail("accept-none-wrong-exception", "find_vertices(k=%d, %s) %s" % (k, what, out.describe()))
        ctx.cls("find|accepts none")
    elif out.kind != "ok":
        ctx.fail("find-" + out.kind + (":" + type(out.exc).__name__ if out.exc is not None else ""),
                 "find_vertices(k=%d, %s) %s" % (k, what, out.describe()))
    else:
        got = np.asarray(out.value)
        if got.shape != (4 ** k,) or [bool(x) for x in got.tolist()] != want:
            bad = [] if got.shape != (4 ** k,) else [i for i in range(4 ** k) if bool(got[i]) != want[i]][:6]
            ctx.fail("mask-differs", "find_vertices(k=%d, %s): mask differs from the filter at k-mers %s" % (k, what, [(i, kmers[i]) for i in bad]))
        ctx.cls("find|accepts some")
    if case["kind"] == "user":
        seen = [s for s, _n, _kw in log][:len(kmers)]
        if sorted(seen) == sorted(kmers):
            ctx.cls("spy|called with every k-mer exactly once")
        else:
            ctx.cls("spy|other call pattern")
            ctx.notes.setdefault("spy_other_pattern_example", dict(k=k, received=seen[:8]))
        for _s, nargs, kw in log[:1]:
            ctx.cls("spy|call style positional=%d keywords=%s" % (nargs, list(kw)))
        ctx.cls("user|style=%s" % case["spec"]["style"])
        ctx.cls("user|ret=%s" % case["spec"]["ret"])
        ctx.cls("user|pred=%s" % case["spec"]["pred"])
    elif case["kind"] == "asym":
        ctx.cls("user|subclass of LocalBioFilter with an asymmetric rule")
    else:
        ctx.cls("local filter")
    if case["kind"] == "user" and case["spec"]["pred"] == "few":
        ctx.cls("filter accepting %d k-mer(s) at k=%d" % (sum(want), k))
    ctx.done("find", case, any(want) and not all(want))


def check_filter_sequence(ctx, case):
    """G2: the same filter object is tightened between two find_vertices calls; the second mask must follow the
    *current* settings of the filter."""
    dsw = import_dsw()
    k = case["k"]
    kmers = ["".join(t) for t in itertools.product("ACGT", repeat=k)]
    from props.C12 import ref_valid
    f = dsw.LocalBioFilter(observed_length=k, max_homopolymer_runs=case["run0"], gc_range=case["gc"], undesired_motifs=[])
    cfg = dict(k=k, run=case["run0"], gc=None if case["gc"] is None else [str(x) for x in case["gc"]], motifs=[])
    for stage in range(3):
        want = [ref_valid(cfg, s, False)[0] for s in kmers]      # independent predicate for the settings as they are now
        out = monitored(dsw.find_vertices, 400 * 4 ** k + 5000, k, f)
        if not any(want):
            if out.kind == "ok":
                ctx.fail("accept-none-returned", "stage %d: find_vertices returned although the filter now accepts nothing" % stage)
        elif out.kind != "ok" or [bool(x) for x in np.asarray(out.value).tolist()] != want:
            ctx.fail("mask-stale-after-filter-edit", "stage %d: after the filter object was edited in place (run limit %s, motifs %s) find_vertices %s" % (
                stage, f.max_homopolymer_runs, f.undesired_motifs, out.describe() if out.kind != "ok" else "returned the mask of the earlier settings"))
            break
        if stage == 0:
            f.max_homopolymer_runs = case["run1"]
            cfg["run"] = case["run1"]
        elif stage == 1:
            f.undesired_motifs.append(case["motif"])
            cfg["motifs"] = cfg["motifs"] + [case["motif"]]
    ctx.cls("filter object edited between calls")
    ctx.done("filter_sequence", case, True)


CHECKS = {"valid_graph": check_valid_graph, "find": check_find, "filter_sequence": check_filter_sequence}


def floors(agg, tier):
    out = []
    c = agg["classes"]
    for name, need in (("find|accepts some", 500), ("find|accepts none", 30), ("user|style=documented", 200),
                       ("user|style=dna_sequence", 50), ("user|style=posonly", 50), ("user|ret=npbool", 50), ("user|ret=int", 50), ("user|ret=uint8", 50), ("user|ret=int8", 50),
                       ("user|pred=positional", 30), ("user|pred=doc-gc", 30), ("local filter", 300),
                       ("valid-graph|empty mask", 2), ("valid-graph|non-empty mask", 100000),
                       ("valid-graph|preceded by an unrelated coding-graph call", 1000), ("valid-graph|preceded by an edited complete accessor", 500),
                       ("filter accepting 1 k-mer(s) at k=8", 1), ("filter object edited between calls", 100),
                       ("user|subclass of LocalBioFilter with an asymmetric rule", 100), ("filter accepting 1 k-mer(s) at k=6", 1),
                       ("filter accepting 2 k-mer(s) at k=6", 1), ("find repeated after the first mask was scrambled", 100)):
        if c.get(name, 0) < need:
            out.append("%s observed %d < %d" % (name, c.get(name, 0), need))
    return out
