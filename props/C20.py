"""C20 - library calls are stateless and never modify their arguments (DESIGN.md section 4, C20)."""
import contextlib
import copy
import io
import json
import os
import random
import subprocess
import sys
import tempfile

import numpy as np

if __name__ == "__main__":  # fresh-process oracle entry (python props/C20.py --fresh FILE)
    sys.dont_write_bytecode = True
    sys.path.insert(0, os.path.dirname(os.path.dirname(os.path.abspath(__file__))))

from vlib import alias, clock, guards, graphs as G, gens, oracles
from vlib.base import import_dsw, VERIF, REPO, jdump, derive_seed
from vlib.proxies import frozen

ID = "C20"
LEVEL = "exploration"
TECHNIQUE = ("history recorder + offline checker: random interleavings of real library calls on shared objects, each call guarded "
             "by argument digests, a read-only (numpy write-protection) re-run, a module-global digest, an RNG-state digest and "
             "an audit hook; results compared with a fresh-interpreter oracle replaying the recorded calls, and with a verbose twin")
LEVEL_TEXT = ("Held on every call of every generated history of this run (20-60 calls on one shared accessor / message / table / "
              "mask / latter map / filter, including in-place arc removals followed by further calls on the modified objects). "
              "Each history is replayed in reversed order in one fresh interpreter (quick) and additionally one call per fresh "
              "interpreter for a sample (thorough). Sampled over histories.")
LEVEL_NOTE = ("Side effects are visible only through argument/global/RNG digests and CPython audit events; an effect that changes "
              "none of these is out of reach. Results are compared after canonicalisation (numpy scalars -> Python scalars, arrays "
              "with dtype and shape).")
PLAN = {"quick": dict(shards=16, budget=160), "thorough": dict(shards=16, budget=500)}
RULE = ("Histories of 20-60 calls drawn from encode / decode / repair_dna / set_vt / the four converters / calculus helpers / "
        "find_vertices / connect_valid_graph / connect_coding_graph / approximate_capacity / calculate_intersection_score / "
        "create_random_shuffles / the representation converters / leaf and vertex queries / path_matching / remove_useless / "
        "LocalBioFilter.valid / remove_nasty_arc (in place) on shared objects, k in {2,3}. Per call: argument digests equal "
        "before/after (arc removal excepted), the same call on write-protected copies gives the same result and never writes, "
        "module globals and interpreter-wide state (stdlib random, cwd, environment, sys.path, limits, numpy settings) unchanged, numpy RNG state unchanged except by the two randomised calls, no audit events; verbose=True "
        "gives the same result or the same exception type; a fresh interpreter gives the same result for the recorded "
        "arguments (and seed). Non-trivial: the history holds >= 3 distinct operations; distinct = hash of the history."
        ' Also: the fresh interpreter rebuilds the latter map in another insertion order (an equal dict); a trim -> convert -> remove pipeline whose first argument must stay unchanged; a few ordinary calls after every strip run; every call repeated after its returned object was scrambled in place, in-place edits of the shared accessor / latter map / mask / table by the harness between calls, objects handed back by the library adopted as shared arguments, removal bursts and strip runs (arc removal until it raises), parameters drawn from small pools, histories at order 6 on the cheap operations; the write-protected and verbose twins run as a pass of their own after the history.')

NUC = "ACGT"
STEP_BUDGET = 300000  # loop iterations per call (deterministic logical clock, same in the fresh interpreter)


# ---- shared state <-> JSON ---------------------------------------------------------------------------------------------

class State:
    def __init__(self, snap, permute=False):
        dsw = import_dsw()
        self.k = snap["k"]
        self.start = snap["start"]
        self.acc = G.hex_to_acc(self.k, snap["acc"])
        self.msg = np.array(snap["msg"], dtype=int)
        self.table = np.array(snap["table"], dtype=int)
        self.mask = G.hex_to_mask(self.k, snap["mask"], dtype=bool)
        items = [(int(a), [int(x) for x in b]) for a, b in snap["lm"]]
        if permute:
            # an *equal* dict built in another insertion order (dict equality ignores it)
            random.Random(len(items) * 7919 + sum(a for a, _ in items)).shuffle(items)
        self.lm = dict(items)
        self.cfg = copy.deepcopy(snap["cfg"])
        self.filt = dsw.LocalBioFilter(observed_length=self.k, max_homopolymer_runs=self.cfg["run"], gc_range=copy.deepcopy(self.cfg["gc"]),
                                       undesired_motifs=copy.deepcopy(self.cfg["motifs"]))   # the shared filter owns its own lists
        self.strand = snap["strand"]
        self.check = snap["check"]
        # the caller's own constraint lists, handed to the filter constructor as they are
        self.motif_list = None if self.cfg["motifs"] is None else list(self.cfg["motifs"])
        self.gc_list = None if self.cfg["gc"] is None else list(self.cfg["gc"])

    def snap(self):
        return dict(k=self.k, start=self.start, acc=G.acc_to_hex(self.acc), msg=[int(b) for b in self.msg],
                    table=np.asarray(self.table).tolist(), mask=G.mask_to_hex(self.mask),
                    lm=[[int(a), [int(x) for x in b]] for a, b in self.lm.items()], cfg=self.cfg, strand=self.strand,
                    check=self.check)

    def objects(self):
        return dict(accessor=self.acc, message=self.msg, table=self.table, mask=self.mask, latter_map=self.lm,
                    filter=vars(self.filt), motif_list=self.motif_list, gc_list=self.gc_list)


def canon(x):
    if isinstance(x, np.ndarray):
        return ["nd", list(x.shape), str(x.dtype), x.tolist()]
    if isinstance(x, (np.bool_, bool)):
        return bool(x)
    if isinstance(x, np.integer):
        return int(x)
    if isinstance(x, (np.floating, float)):
        return ["f", repr(float(x))]
    if isinstance(x, (list, tuple)):
        return [type(x).__name__[0]] + [canon(y) for y in x]
    if isinstance(x, dict):
        return ["d"] + sorted([[canon(a), canon(b)] for a, b in x.items()], key=jdump)
    if isinstance(x, (str, int, type(None))):
        return x
    return ["obj", type(x).__name__]


# ---- the operations ------------------------------------------------------------------------------------------------------
# name -> (function(dsw, S, p, verbose) , accepts_verbose, randomised, in_place)

def _tbl(S, p):
    return S.table if p.get("table") else None


OPS = {}


def op(name, verbose=False, randomised=False, in_place=False):
    def deco(fn):
        OPS[name] = (fn, verbose, randomised, in_place)
        return fn
    return deco


@op("encode", verbose=True)
def _(dsw, S, p, v):
    return dsw.encode(S.msg, S.acc, S.start, is_faster=p["fast"], vt_length=p["vt"], shuffles=_tbl(S, p),
                      need_path=p["path"], verbose=v)


@op("decode", verbose=True)
def _(dsw, S, p, v):
    return dsw.decode(S.strand, p["L"], S.acc, S.start, is_faster=p["fast"], vt_check=S.check if p["check"] else None,
                      shuffles=_tbl(S, p), verbose=v)


@op("repair_dna")
def _(dsw, S, p, v):
    return dsw.repair_dna(p["s"], S.acc, S.start, S.k, vt_check=S.check if p["check"] else None, has_indel=p["indel"],
                          heap_size=p["heap"])


@op("set_vt")
def _(dsw, S, p, v):
    return dsw.set_vt(S.strand, p["n"])


@op("bit_to_number", verbose=True)
def _(dsw, S, p, v):
    return dsw.bit_to_number(S.msg if p["array"] else [int(b) for b in S.msg], is_string=p["string"], verbose=v)


@op("number_to_bit")
def _(dsw, S, p, v):
    return dsw.number_to_bit(p["x"] if p["string"] else int(p["x"]), p["L"])


@op("dna_to_number")
def _(dsw, S, p, v):
    return dsw.dna_to_number(S.strand, is_string=p["string"])


@op("number_to_dna")
def _(dsw, S, p, v):
    return dsw.number_to_dna(p["x"] if p["string"] else int(p["x"]), p["L"])


@op("calculus")
def _(dsw, S, p, v):
    fn = {"add": dsw.calculus_addition, "sub": dsw.calculus_subtraction, "mul": dsw.calculus_multiplication,
          "div": dsw.calculus_division}[p["which"]]
    return fn(p["x"], p["b"])


@op("find_vertices", verbose=True)
def _(dsw, S, p, v):
    return dsw.find_vertices(S.k, S.filt, verbose=v)


@op("connect_valid_graph", verbose=True)
def _(dsw, S, p, v):
    return dsw.connect_valid_graph(S.k, S.mask, verbose=v)


@op("connect_coding_graph", verbose=True)
def _(dsw, S, p, v):
    return dsw.connect_coding_graph(S.k, S.mask, p["t"], verbose=v)


@op("approximate_capacity", verbose=True, randomised=True)
def _(dsw, S, p, v):
    np.random.seed(p["seed"])
    return dsw.approximate_capacity(S.acc, repeats=p["repeats"], process=p["process"], verbose=v)


@op("calculate_intersection_score", verbose=True)
def _(dsw, S, p, v):
    return dsw.calculate_intersection_score(S.lm, observed_length=S.k, has_insertion=p["ins"], has_deletion=p["dele"], verbose=v)


@op("create_random_shuffles", verbose=True, randomised=True)
def _(dsw, S, p, v):
    return dsw.create_random_shuffles(S.k, p["seed"], verbose=v)


@op("accessor_to_latter_map", verbose=True)
def _(dsw, S, p, v):
    return dsw.accessor_to_latter_map(S.acc, verbose=v)


@op("latter_map_to_accessor", verbose=True)
def _(dsw, S, p, v):
    return dsw.latter_map_to_accessor(S.lm, S.k, threshold=p["t"], verbose=v)


@op("accessor_to_adjacency_matrix", verbose=True)
def _(dsw, S, p, v):
    return dsw.accessor_to_adjacency_matrix(S.acc, verbose=v)


@op("adjacency_matrix_to_accessor", verbose=True)
def _(dsw, S, p, v):
    n = 4 ** S.k
    m = np.zeros((n, n), dtype=int)
    for u in range(n):
        for w in S.acc[u]:
            if w >= 0:
                m[u, w] = 1
    return dsw.adjacency_matrix_to_accessor(m, verbose=v)


@op("obtain_vertices")
def _(dsw, S, p, v):
    return dsw.obtain_vertices(S.acc)


@op("obtain_formers")
def _(dsw, S, p, v):
    return dsw.obtain_formers(p["v"], S.k)


@op("obtain_latters")
def _(dsw, S, p, v):
    return dsw.obtain_latters(p["v"], S.k)


@op("obtain_leaf_vertices")
def _(dsw, S, p, v):
    if p["via"] == "accessor":
        return dsw.obtain_leaf_vertices(p["v"], p["depth"], accessor=S.acc)
    return dsw.obtain_leaf_vertices(p["v"], p["depth"], latter_map=S.lm)


@op("get_complete_accessor", verbose=True)
def _(dsw, S, p, v):
    return dsw.get_complete_accessor(S.k, verbose=v)


@op("path_matching")
def _(dsw, S, p, v):
    return dsw.path_matching(p["s"], S.acc, p["prev"], p["loc"], has_indel=p["indel"])


@op("remove_useless", verbose=True)
def _(dsw, S, p, v):
    return dsw.remove_useless(S.lm, p["t"], verbose=v)


@op("filter_valid")
def _(dsw, S, p, v):
    return S.filt.valid(S.strand, only_last=p["last"])


@op("make_filter")
def _(dsw, S, p, v):
    f = dsw.LocalBioFilter(observed_length=S.k, max_homopolymer_runs=S.cfg["run"], gc_range=S.gc_list, undesired_motifs=S.motif_list)
    return [sorted((a, canon(b)) for a, b in vars(f).items()), bool(f.valid(S.strand)) if S.strand else None]


@op("remove_nasty_arc", verbose=True, in_place=True)
def _(dsw, S, p, v):
    r = dsw.remove_nasty_arc(S.acc, S.lm, p["it"], p["ins"], p["dele"], verbose=v)
    return [r[0], r[1], r[2], r[3]]


@op("trim_then_remove", verbose=True)
def _(dsw, S, p, v):
    # a caller's pipeline: trim the shared map, convert, remove an arc from the *trimmed* map.  The shared map is an
    # argument of the first call only and must come out of the whole pipeline unchanged.
    trimmed = dsw.remove_useless(S.lm, p["t"], verbose=v)
    acc = dsw.latter_map_to_accessor(trimmed, S.k)
    r = dsw.remove_nasty_arc(acc, trimmed, p["it"], p["ins"], p["dele"], verbose=v)
    return [r[0], r[1], r[2], r[3]]


# "adopt" operations: the object the library hands back becomes the shared argument of later calls (harness-side
# assignment).  If the library keeps a reference to what it returned (a cache, a reused buffer), a later in-place arc
# removal or any later call on that object shows up as a difference from the fresh interpreter.
ADOPT = {"get_complete_accessor": "acc", "connect_valid_graph": "acc", "create_random_shuffles": "table",
         "find_vertices": "mask"}


def run_op(dsw, S, name, p, verbose=False):
    """Returns canonical result or {'exc': type}."""
    fn = OPS[name][0]
    try:
        with contextlib.redirect_stdout(io.StringIO()), clock.budget(STEP_BUDGET if S.k <= 3 else STEP_BUDGET * 200):
            raw = fn(dsw, S, p, verbose)
            S.last_raw = raw
            return canon(raw)
    except clock.BudgetExceeded:
        # e.g. encode on a graph that arc removal has left with an information-free cycle: outside every property, but it
        # must not hang the harness; the logical clock makes the outcome identical in the fresh interpreter
        return {"exc": "NoReturnWithinLoopBudget", "msg": ""}
    except Exception as e:  # noqa - the exception type is the observation
        return {"exc": type(e).__name__, "msg": str(e)[:80]}


# ---- fresh-process oracle --------------------------------------------------------------------------------------------------

def fresh_main(path):
    dsw = import_dsw()
    clock.install(lines=False)
    recs = json.load(open(path))
    out = []
    for rec in recs:
        S = State(rec["snap"], permute=True)
        out.append(run_op(dsw, S, rec["op"], rec["p"]))
    sys.stdout.write("\n@@RESULT@@" + jdump(out))


def fresh_run(recs):
    """Execute the recorded calls in a fresh interpreter; returns list of canonical results (or None on failure)."""
    fd, path = tempfile.mkstemp(prefix="c20-", suffix=".json")
    try:
        with os.fdopen(fd, "w") as f:
            f.write(jdump(recs))
        env = dict(os.environ)
        # a fresh process has its own string-hash salt: never the one of this process
        env.update(PYTHONDONTWRITEBYTECODE="1", PYTHONHASHSEED="1" if os.environ.get("PYTHONHASHSEED") == "0" else "0", VERIF_REPO=REPO)
        p = subprocess.run([sys.executable, os.path.abspath(__file__), "--fresh", path], env=env, cwd=VERIF, timeout=300,
                           stdout=subprocess.PIPE, stderr=subprocess.PIPE)
        txt = p.stdout.decode(errors="replace")
        if p.returncode != 0 or "@@RESULT@@" not in txt:
            return None, (p.stderr.decode(errors="replace")[-600:] or txt[-300:])
        return json.loads(txt.split("@@RESULT@@", 1)[1]), None
    except subprocess.TimeoutExpired:
        return None, "fresh interpreter timed out"
    finally:
        os.unlink(path)


# ---- history generation ----------------------------------------------------------------------------------------------------

def setup(ctx):
    import_dsw()
    clock.install(lines=False)
    guards.audit_install()


def _initial(rng, large=False, strip=False):
    k = 6 if large else 2 if strip else rng.choice([2, 2, 3])
    acc = None
    while acc is None:
        acc = gens.arc_graph(rng, k, density=rng.choice([0.6, 0.8, 0.95]), forbid3=rng.random() < 0.4)
    live = G.live_vertices(acc)
    start = int(rng.choice(live))
    strand = G.random_walk(acc, start, rng.randint(2 * k + 2, 6 * k + 4), rng)
    lm = [[v, [int(w) for w in acc[v] if w >= 0]] for v in live]
    cfg = dict(run=rng.choice([None, 1, 2]), gc=rng.choice([None, [0.25, 0.75], [0.5, 0.5], [0.0, 1.0]]),
               motifs=rng.choice([None, [gens.random_dna(rng, 2)], [gens.random_dna(rng, 2).lower()], [gens.random_dna(rng, 2), "Gc"]]))
    return dict(k=k, start=start, acc=G.acc_to_hex(acc), msg=rng.choice([[], [0] * rng.randint(1, 12)] + [[rng.randint(0, 1) for _ in range(rng.randint(1, 36))] for _ in range(10)]),
                table=gens.table(rng, k, "random"), mask=G.mask_to_hex(gens.rand_mask(rng, k, rng.choice([0.6, 0.85, 1.0]))),
                lm=lm, cfg=cfg, strand=strand, check=oracles.vt(strand, 4))


LARGE_OPS = {"make_filter", "obtain_formers", "obtain_latters", "approximate_capacity", "approximate_capacity", "connect_valid_graph", "get_complete_accessor",
             "obtain_vertices", "accessor_to_latter_map", "create_random_shuffles", "set_vt", "obtain_leaf_vertices", "filter_valid"}
WEIGHTS = [("encode", 6), ("decode", 5), ("repair_dna", 4), ("set_vt", 2), ("bit_to_number", 2), ("number_to_bit", 1),
           ("dna_to_number", 1), ("number_to_dna", 1), ("calculus", 2), ("find_vertices", 2), ("connect_valid_graph", 2),
           ("connect_coding_graph", 3), ("approximate_capacity", 3), ("calculate_intersection_score", 2),
           ("create_random_shuffles", 2), ("accessor_to_latter_map", 2), ("latter_map_to_accessor", 2),
           ("accessor_to_adjacency_matrix", 1), ("adjacency_matrix_to_accessor", 1), ("obtain_vertices", 1),
           ("obtain_leaf_vertices", 4), ("obtain_formers", 1), ("obtain_latters", 1), ("get_complete_accessor", 3), ("path_matching", 2), ("remove_useless", 2),
           ("filter_valid", 2), ("make_filter", 2), ("remove_nasty_arc", 8), ("trim_then_remove", 3)]


def _params(rng, name, S):
    k = S.k
    if name == "encode":
        return dict(fast=rng.random() < 0.3, vt=rng.choice([0, 0, 3, 5]), table=rng.random() < 0.5, path=rng.random() < 0.2)
    if name == "decode":
        return dict(fast=rng.random() < 0.3, L=rng.choice([len(S.msg), len(S.msg), 8, 64]), table=rng.random() < 0.5, check=rng.random() < 0.4)
    if name == "repair_dna":
        s = S.strand
        if s and rng.random() < 0.8:
            pos = rng.randrange(len(s))
            s = s[:pos] + rng.choice(NUC) + s[pos + (0 if rng.random() < 0.2 else 1):]
        if len(s) < k:
            s = s + "A" * k
        return dict(s=s, check=rng.random() < 0.4, indel=rng.random() < 0.6, heap=rng.choice([10, 1000]))
    if name == "set_vt":
        return dict(n=rng.choice([1, 3, 5, 33]))
    if name == "bit_to_number":
        return dict(array=rng.random() < 0.5, string=True if rng.random() < 0.6 else False)
    if name in ("number_to_bit", "number_to_dna"):
        L = rng.choice([0, 5, 20, 70])
        return dict(x=str(rng.randrange((2 if name == "number_to_bit" else 4) ** L)), L=L, string=rng.random() < 0.5)
    if name == "dna_to_number":
        return dict(string=rng.random() < 0.5)
    if name == "calculus":
        return dict(which=rng.choice(["add", "mul", "div", "sub"]), x=str(rng.randrange(10, 10 ** rng.choice([2, 19, 40]))), b=str(rng.randint(0, 9)))
    if name == "connect_coding_graph":
        return dict(t=rng.choice([1, 1, 2, 3]))
    if name == "approximate_capacity":
        return dict(seed=rng.getrandbits(32), repeats=rng.choice([1, 1, 2, 3]), process=rng.random() < 0.5)
    if name == "calculate_intersection_score":
        return dict(ins=rng.random() < 0.5, dele=rng.random() < 0.5)
    if name == "create_random_shuffles":
        # a pass-phrase instead of a number is refused (TypeError) - in every process alike
        return dict(seed=rng.getrandbits(32) if rng.random() < 0.85 else "archive-%d" % rng.randrange(5), adopt=rng.random() < 0.5)
    if name == "latter_map_to_accessor":
        return dict(t=rng.choice([None, None, 1, 2]))
    if name == "obtain_leaf_vertices":
        # few keys: the same (vertex, depth) queries recur before and after in-place edits of the shared graph
        return dict(v=rng.choice([S.start, S.start, (S.start * 4 + 1) % 4 ** k, 0]), depth=rng.choice([1, 2, 2, k]), via=rng.choice(["accessor", "latter_map", "latter_map"]))
    if name in ("obtain_formers", "obtain_latters"):
        return dict(v=rng.choice([S.start, 0, 4 ** k - 1, rng.randrange(4 ** k)]))
    if name == "path_matching":
        s = S.strand if len(S.strand) >= 2 else "ACGT"
        return dict(s=s, prev=S.start, loc=rng.randrange(min(len(s), k + 1)), indel=rng.random() < 0.5)
    if name == "remove_useless":
        return dict(t=rng.choice([1, 2, 3]))
    if name == "filter_valid":
        return dict(last=rng.random() < 0.5)
    if name == "trim_then_remove":
        return dict(t=rng.choice([1, 1, 2]), it=rng.randint(0, 3), ins=rng.random() < 0.5, dele=rng.random() < 0.5)
    if name == "remove_nasty_arc":
        fixed = getattr(S, "strip_flags", None)
        if fixed is not None:
            return dict(it=rng.randint(0, 3), ins=fixed[0], dele=fixed[1])
        return dict(it=rng.randint(0, 3), ins=rng.random() < 0.5, dele=rng.random() < 0.5)
    if name in ADOPT:
        return dict(adopt=rng.random() < 0.5)
    return {}


def generate(ctx):
    rng = ctx.rng
    for i in range(ctx.pick(20, 250)):
        yield "history", dict(seed=rng.getrandbits(48), length=rng.randint(20, 60), fresh_each=(not ctx.quick()) and rng.random() < 0.15,
                              layout=rng.choice([None, None, None, "F"]))
        if i % 5 == 0:
            # strip run: arc removal repeated on the shared views until it raises (the states deep into a removal
            # sequence - vertices without arcs that are still arc heads - are where progress output and scoring differ)
            yield "history", dict(seed=rng.getrandbits(48), length=70, strip=True)
        if i % ctx.pick(20, 5) == 0:
            # order 6 (4096 vertices): the cheap operations only; state shared across calls on *different* graphs of one size
            yield "history", dict(seed=rng.getrandbits(48), length=rng.randint(12, 24), large=True)


def check_history(ctx, case):
    dsw = import_dsw()
    rng = random.Random(case["seed"])
    S = State(_initial(rng, bool(case.get("large")), bool(case.get("strip"))))
    if case.get("strip"):
        S.strip_flags = rng.choice([(True, True), (True, False), (False, True), (False, False), (False, False)])
    if case.get("layout") == "F":
        S.acc = np.asfortranarray(S.acc)          # the shared accessor in column-major memory
    names = [n for n, w in WEIGHTS for _ in range(w)]
    recs, live_results, seen_ops = [], [], set()
    where0 = "history seed=%d" % case["seed"]
    burst, tail = 0, None
    large = bool(case.get("large"))
    if large:
        names = [n for n in names if n in LARGE_OPS]
    for step in range(case["length"]):
        if rng.random() < 0.12:
            # harness-side edits *in place* (same objects): what a caller does between library calls
            kind = rng.choice(["edit_accessor", "edit_accessor", "rewire_accessor", "rewire_accessor", "refill_mask", "edit_table"])
            n_v = 4 ** S.k
            if kind == "edit_accessor":
                for _e in range(rng.randint(1, 3)):
                    v, j = rng.randrange(n_v), rng.randrange(4)
                    w = (v * 4 + j) % n_v
                    if S.acc[v, j] >= 0:
                        S.acc[v, j] = -1
                        if v in S.lm and w in S.lm[v]:
                            S.lm[v].remove(w)
                            if not S.lm[v]:
                                del S.lm[v]
                    else:
                        S.acc[v, j] = w
                        S.lm.setdefault(v, []).append(w)
            elif kind == "rewire_accessor":
                # move an arc v->w to a sibling former v'->w: one entry disappears, an equal entry appears elsewhere
                # (the sum and the number of arcs stay the same)
                for _e in range(rng.randint(1, 2)):
                    arcs = np.argwhere(S.acc >= 0)
                    if len(arcs) == 0:
                        break
                    v, j = map(int, arcs[rng.randrange(len(arcs))])
                    w = int(S.acc[v, j])
                    others = [u for u in G.preds(w, S.k) if u != v and S.acc[u, j] < 0]
                    if not others:
                        continue
                    u = rng.choice(others)
                    S.acc[v, j] = -1
                    S.acc[u, j] = w
                    if v in S.lm and w in S.lm[v]:
                        S.lm[v].remove(w)
                        if not S.lm[v]:
                            del S.lm[v]
                    S.lm.setdefault(u, []).append(w)
            elif kind == "refill_mask":
                S.mask[...] = np.array(gens.rand_mask(rng, S.k, rng.choice([0.5, 0.8, 1.0])), dtype=bool)
            else:
                r = rng.randrange(len(S.table))
                row = S.table[r].tolist()
                rng.shuffle(row)
                S.table[r] = row
            ctx.cls("shared objects edited in place by the harness")
        if case.get("strip") and step >= 2 and tail is None:
            if live_results and isinstance(live_results[-1], dict) and "exc" in live_results[-1] and recs[-1]["op"] == "remove_nasty_arc":
                tail = 6           # a few ordinary calls on what the strip run left behind
        if tail is not None:
            if tail == 0:
                break
            tail -= 1
            name = rng.choice([n for n in names if n not in ("remove_nasty_arc", "trim_then_remove")])
            ctx.cls("calls after a strip run")
        elif case.get("strip") and step >= 2:
            name = "remove_nasty_arc"
        elif burst > 0:
            burst -= 1
            name = "remove_nasty_arc"
        else:
            name = rng.choice(names)
            if name == "remove_nasty_arc":
                burst = rng.randint(0, 6)      # removal runs: the interesting states are several removals deep
        p = _params(rng, name, S)
        fn, has_verbose, randomised, in_place = OPS[name]
        snap = S.snap()
        where = "%s, call %d: %s(%s)" % (where0, step, name, jdump(p)[:120])
        # the live call on the shared objects, fully guarded
        objs = S.objects()
        before = {k: guards.digest(v) for k, v in objs.items()}
        g0, r0, a0 = guards.globals_digest(), guards.rng_digest(), guards.ambient_digest()
        with guards.audited() as ev:
            r_live = run_op(dsw, S, name, p)
        after = {k: guards.digest(v) for k, v in S.objects().items()}
        changed = [k for k in before if before[k] != after[k]]
        if in_place:
            changed = [k for k in changed if k not in ("accessor", "latter_map")]
        if changed:
            ctx.fail("argument-modified:" + name, "%s changed during the call; %s" % (changed, where))
        if guards.globals_digest() != g0:
            ctx.fail("module-globals-changed:" + name, "the module globals of dsw changed during the call; %s" % where)
        if guards.ambient_digest() != a0:
            ctx.fail("interpreter-state-changed:" + name, "interpreter-wide state (stdlib random generator / cwd / environment / sys.path / limits / "
                     "numpy error and print settings) changed during the call; %s" % where)
        if not randomised and guards.rng_digest() != r0:
            ctx.fail("rng-state-changed:" + name, "numpy's global RNG state changed during a call that is not randomised; %s" % where)
        effects = [e for e in ev.events if e[0] != "open"]
        if effects:
            ctx.fail("side-effect:" + name, "audit events %s; %s" % (effects[:3], where))
        # G1: scramble what the library handed back, repeat the identical call on the same objects
        raw = getattr(S, "last_raw", None)
        if not in_place and not (isinstance(r_live, dict) and "exc" in r_live) and alias.has_mutable(raw) \
                and not alias.aliases_arguments(raw, tuple(S.objects().values()), {}) and not (name in ADOPT and p.get("adopt")):
            alias.scramble(raw)
            r_again = run_op(dsw, S, name, p)
            ctx.cls("call repeated after its result was scrambled")
            if _differs(r_again, r_live):
                ctx.fail("answer-changes-after-result-was-edited:" + name, "the identical call, repeated after the caller edited the first result in place, "
                         "returned %s instead of %s; %s" % (jdump(r_again)[:160], jdump(r_live)[:160], where))
        recs.append(dict(op=name, p=p, snap=snap))
        live_results.append(r_live)
        seen_ops.add(name)
        ctx.cls("op|" + name)
        ctx.cls("outcome|" + ("exception" if isinstance(r_live, dict) and "exc" in r_live else "returned"))
        ctx.evaluations += 1
        # harness-side state updates (never by the library)
        if name == "encode" and not (isinstance(r_live, dict) and "exc" in r_live):
            strand = r_live[1] if isinstance(r_live, list) else r_live
            if isinstance(strand, str) and strand:
                S.strand = strand
                S.check = oracles.vt(strand, 4)
        if in_place:
            ctx.cls("in-place removal followed by further calls")
        if name in ADOPT and p.get("adopt") and not (isinstance(r_live, dict) and "exc" in r_live):
            raw = getattr(S, "last_raw", None)
            if isinstance(raw, np.ndarray):
                if ADOPT[name] == "acc" and raw.shape == S.acc.shape:
                    S.acc = raw            # the very object the library returned
                    S.lm = {int(v): [int(w) for w in raw[v] if w >= 0] for v in range(len(raw)) if (raw[v] >= 0).any()}
                    if not (raw[S.start] >= 0).any() and (raw >= 0).any():
                        S.start = int(np.nonzero((raw >= 0).any(axis=1))[0][0])
                    ctx.cls("adopted a returned accessor as the shared accessor")
                elif ADOPT[name] == "table" and raw.shape == S.table.shape:
                    S.table = raw
                    ctx.cls("adopted a returned table as the shared table")
                elif ADOPT[name] == "mask" and raw.shape == S.mask.shape:
                    S.mask = raw
                    ctx.cls("adopted a returned mask as the shared mask")
    # twins, as a pass of their own *after* the history (so that no call on other objects sits between two live calls on
    # the shared objects): every recorded call again on write-protected copies of its arguments, and with verbose=True
    for i, rec in enumerate(recs):
        name, p = rec["op"], rec["p"]
        fn, has_verbose, randomised, in_place = OPS[name]
        where = "%s, call %d: %s(%s)" % (where0, i, name, jdump(p)[:120])
        r_live = live_results[i]
        if not in_place:
            Sc = State(rec["snap"])
            for arr in (Sc.acc, Sc.msg, Sc.table, Sc.mask):
                arr.flags.writeable = False
            r_frozen = run_op(dsw, Sc, name, p)
            if isinstance(r_frozen, dict) and "read-only" in r_frozen.get("msg", ""):
                ctx.fail("argument-written-in-place:" + name, "an ndarray argument was written in place: %s; %s" % (r_frozen, where))
            elif _differs(r_frozen, r_live):
                ctx.fail("repeated-call-differs:" + name, "the same call on equal (write-protected) arguments gave %s, on the shared objects %s; %s" % (
                    jdump(r_frozen)[:160], jdump(r_live)[:160], where))
        if has_verbose:
            r_verbose = run_op(dsw, State(rec["snap"]), name, p, verbose=True)
            if _differs(r_verbose, r_live, twin=True):
                ctx.fail("verbose-changes-result:" + name, "verbose=True gave %s, verbose=False %s; %s" % (
                    jdump(r_verbose)[:160], jdump(r_live)[:160], where))
            ctx.cls("verbose twin|" + name)
    # fresh-interpreter oracle: the recorded calls, reversed order, one fresh process
    order = list(range(len(recs)))[::-1]
    fresh, err = fresh_run([recs[i] for i in order])
    if fresh is None:
        ctx.harness_errors.append("fresh interpreter failed: %s" % err)
    else:
        ctx.mon("fresh-interpreter replays")
        for pos, i in enumerate(order):
            if _differs(fresh[pos], live_results[i]):
                ctx.fail("differs-from-fresh-process:" + recs[i]["op"], "call %d %s(%s) returned %s in the history but %s in a fresh interpreter on equal arguments; %s" % (
                    i, recs[i]["op"], jdump(recs[i]["p"])[:100], jdump(live_results[i])[:160], jdump(fresh[pos])[:160], where0),
                    "history", case)
            ctx.mon("calls compared with a fresh interpreter")
    if case.get("fresh_each"):
        for i in rng.sample(range(len(recs)), min(4, len(recs))):
            one, err = fresh_run([recs[i]])
            if one is not None:
                ctx.mon("single-call fresh interpreters")
                if _differs(one[0], live_results[i]):
                    ctx.fail("differs-from-fresh-process:" + recs[i]["op"], "call %d %s differs from a fresh interpreter running only that call; %s" % (i, recs[i]["op"], where0))
    ctx.obs("longest_history", len(recs))
    if large:
        ctx.cls("histories at order 6")
    if case.get("strip"):
        ctx.cls("strip histories (arc removal until it raises)")
    if case.get("layout") == "F":
        ctx.cls("histories on a Fortran-ordered shared accessor")
    ctx.done("history", case, len(seen_ops) >= 3)


def _differs(a, b, twin=False):
    if twin and any(isinstance(x, dict) and x.get("exc") == "NoReturnWithinLoopBudget" for x in (a, b)) and jdump(a) != jdump(b):
        # a run cut by the logical clock is comparable only with a run that executes the same loop iterations (the fresh
        # interpreter); progress output adds iterations, so twins near the budget are not judged
        return False
    ea, eb = isinstance(a, dict) and "exc" in a, isinstance(b, dict) and "exc" in b
    if ea or eb:
        return not (ea and eb and a["exc"] == b["exc"])
    return jdump(a) != jdump(b)


CHECKS = {"history": check_history}


def floors(agg, tier):
    out = []
    c, m = agg["classes"], agg["monitors"]
    missing = [n for n in OPS if c.get("op|" + n, 0) < 20]
    if missing:
        out.append("operations exercised fewer than 20 times: %s" % missing)
    if m.get("fresh-interpreter replays", 0) < 100:
        out.append("fresh-interpreter replays: %d < 100" % m.get("fresh-interpreter replays", 0))
    if c.get("in-place removal followed by further calls", 0) < 100:
        out.append("in-place removals: %d < 100" % c.get("in-place removal followed by further calls", 0))
    for name, need in (("call repeated after its result was scrambled", 2000), ("shared objects edited in place by the harness", 300),
                       ("histories at order 6", 8), ("histories on a Fortran-ordered shared accessor", 30), ("strip histories (arc removal until it raises)", 30), ("calls after a strip run", 60)):
        if c.get(name, 0) < need:
            out.append("%s observed %d < %d" % (name, c.get(name, 0), need))
    if c.get("adopted a returned accessor as the shared accessor", 0) < 30:
        out.append("adopted accessors: %d < 30" % c.get("adopted a returned accessor as the shared accessor", 0))
    if c.get("outcome|exception", 0) < 50:
        out.append("calls ending in an exception: %d < 50" % c.get("outcome|exception", 0))
    return out


if __name__ == "__main__":
    if len(sys.argv) == 3 and sys.argv[1] == "--fresh":
        fresh_main(sys.argv[2])
