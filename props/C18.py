"""C18 - shuffle tables are reproducible per-vertex permutations (DESIGN.md section 4, C18)."""
import itertools

import numpy as np

from vlib import alias, clock, guards, graphs as G, gens, oracles
from vlib.base import import_dsw
from vlib.coding import monitored, bits_equal

ID = "C18"
LEVEL = "exploration"
TECHNIQUE = ("runtime monitoring of the real create_random_shuffles (shape, row permutations, same-seed reproducibility under "
             "interleaved RNG use, module-global digest, audit hook for side effects) and exhaustive observation of the digit -> "
             "arc map induced by encode/decode for all 24 permutations x 15 live-arc patterns x every digit")
LEVEL_TEXT = ("Exhaustive for the induced map (24 x 15 x all digits, normal mode and fast mode for patterns of size 2 and 4, plus "
              "the acceptance set of all strings up to length 3 with and without the table); tables for k = 1..6 (7 thorough) x "
              "seeds {0, 1, 2021, 2^31-1, 2^32-1, random}. Held on all of them.")
LEVEL_NOTE = ("'No effect other than on the global random state' is observed through digests of the dsw module globals and CPython "
              "audit events (file / process / network); effects that raise no audit event are out of reach.")
PLAN = {"quick": dict(shards=16, budget=100), "thorough": dict(shards=16, budget=300)}
EXHAUSTIVE = ["24 permutations x 15 live-arc patterns x every digit"]
RULE = ("create_random_shuffles(k, seed): shape (4^k, 4), every row a permutation of 0..3, equal tables for equal seeds whatever "
        "the RNG did before, unchanged module globals, unchanged interpreter-wide state (stdlib random generator, cwd, environment, sys.path, limits, numpy error / print settings), no audit events. Induced map at a vertex with live-arc pattern P under a "
        "constant table row p: the first nucleotide encode emits for digit d is the live arc whose table entry is d-th smallest "
        "(a bijection digits -> live arcs), decode inverts it, and decode accepts exactly the same strings (all strings of length "
        "<= 3) with and without the table. Non-trivial: |P| >= 2 and p is not the identity, or k >= 2 for tables; distinct = hash."
        " Also: the same seed requested again after the first table was scrambled in place (and at a smaller order), the caller's table compared before / after encode and decode, and the induced map re-checked after the live-arc pattern was changed in place on the same accessor and table objects.")


def setup(ctx):
    import_dsw()
    clock.install(lines=False)
    guards.audit_install()


def generate(ctx):
    rng = ctx.rng
    perms = list(itertools.permutations(range(4)))
    i = 0
    for p in perms:
        for pat in range(1, 16):
            if ctx.mine(i):
                yield "induced", dict(perm=list(p), pattern=pat)
            i += 1
    ctx.exhausted[EXHAUSTIVE[0]] = True
    seeds = [0, 1, 2021, 2 ** 31 - 1, 2 ** 32 - 1]
    j = 0
    for k in range(1, ctx.pick(7, 8)):
        for seed in seeds + [rng.getrandbits(32) for _ in range(ctx.pick(40, 300))]:
            if ctx.mine(j):
                yield "table", dict(k=k, seed=seed, noise=rng.randint(0, 50))
            j += 1
    for _ in range(ctx.pick(10, 60)):
        yield "table", dict(k=rng.randint(1, 4), seed=None, noise=rng.randint(0, 5))
    for _ in range(ctx.pick(40, 400)):
        # a library-made table used for a round trip at orders 3-4, the start vertex typed as callers have it
        k = rng.choice([3, 4, 4])
        yield "table_roundtrip", dict(k=k, seed=rng.getrandbits(32), gseed=rng.getrandbits(32), start_type=rng.choice(["int", "int64", "uint8", "uint8", "uint16", "int16"]),
                                      fast=rng.random() < 0.4, bits=[rng.randint(0, 1) for _ in range(rng.randint(1, 40))])


def check_table(ctx, case):
    dsw = import_dsw()
    k, seed = case["k"], case["seed"]
    n = 4 ** k
    g0 = guards.globals_digest()
    if seed is not None and k <= 5:
        # the same seed as a numpy integer scalar (seeds drawn from arrays): must give the table of the plain int
        plain = monitored(dsw.create_random_shuffles, 200 * n + 5000, k, seed)
        for typ in (np.int64, np.uint32):
            alt = monitored(dsw.create_random_shuffles, 200 * n + 5000, k, typ(seed))
            if plain.kind == "ok" and (alt.kind != "ok" or not np.array_equal(np.asarray(alt.value), np.asarray(plain.value))):
                ctx.fail("same-seed-different-table", "create_random_shuffles(%d, %s(%d)) %s" % (
                    k, typ.__name__, seed, alt.describe() if alt.kind != "ok" else "differs from the table of the plain int seed"))
        ctx.cls("seed passed as a numpy integer")
    a0 = guards.ambient_digest()
    with guards.audited() as ev:
        out = monitored(dsw.create_random_shuffles, 200 * n + 5000, k, seed)
    if guards.ambient_digest() != a0:
        ctx.fail("interpreter-state-changed", "create_random_shuffles(%d, %r) changed interpreter-wide state other than numpy's global "
                 "random state (stdlib random / cwd / environment / sys.path / limits / numpy settings)" % (k, seed))
    ctx.mon("ambient-state windows observed")
    if out.kind != "ok":
        ctx.fail("table-" + out.kind, "create_random_shuffles(%d, %r) %s" % (k, seed, out.describe()))
        return ctx.done("table", case, k >= 2)
    t = np.asarray(out.value)
    if t.shape != (n, 4):
        ctx.fail("table-shape", "create_random_shuffles(%d, %r) has shape %s" % (k, seed, t.shape))
        return ctx.done("table", case, k >= 2)
    bad = [i for i in range(n) if sorted(t[i].tolist()) != [0, 1, 2, 3]]
    if bad:
        ctx.fail("row-not-a-permutation", "row %d of create_random_shuffles(%d, %r) is %s" % (bad[0], k, seed, t[bad[0]].tolist()))
    if guards.globals_digest() != g0:
        ctx.fail("module-globals-changed", "create_random_shuffles(%d, %r) changed the module globals of dsw" % (k, seed))
    effects = [e for e in ev.events if e[0] != "open"]
    if effects:
        ctx.fail("side-effect", "create_random_shuffles(%d, %r) raised audit events %s" % (k, seed, effects[:3]))
    ctx.mon("audit-windows-observed")
    if seed is not None:
        # G1: the caller edits the table it was given; the same seed must still give the original table
        want = t.copy()
        checked, same, second = alias.repeat_after_scramble(dsw.create_random_shuffles, (k, seed), {}, out.value)
        if checked:
            ctx.cls("same seed requested again after the first table was scrambled")
            if not same:
                ctx.fail("same-seed-different-table", "create_random_shuffles(%d, %r) after the caller edited the first table in place no "
                         "longer returns the original table" % (k, seed))
        t = want
        smaller = monitored(dsw.create_random_shuffles, 200 * n + 5000, max(k - 1, 1), seed)
        if smaller.kind == "ok":
            ts = np.asarray(smaller.value)
            if ts.shape != (4 ** max(k - 1, 1), 4) or any(sorted(r) != [0, 1, 2, 3] for r in ts.tolist()):
                ctx.fail("row-not-a-permutation", "create_random_shuffles(%d, %r) requested after a larger table of the same seed is malformed" % (max(k - 1, 1), seed))
        for _ in range(case["noise"]):
            np.random.random()
        np.random.seed(ctx.rng.getrandbits(32))
        again = monitored(dsw.create_random_shuffles, 200 * n + 5000, k, seed)
        if again.kind != "ok" or not np.array_equal(np.asarray(again.value), t):
            ctx.fail("same-seed-different-table", "create_random_shuffles(%d, %r) differs between two calls (other RNG use in between)" % (k, seed))
        other = monitored(dsw.create_random_shuffles, 200 * n + 5000, k, (seed + 1) % 2 ** 32)
        if other.kind == "ok" and n >= 16 and np.array_equal(np.asarray(other.value), t):
            ctx.cls("different seeds gave the same table (evidence only)")
        ctx.cls("table|seeded")
    else:
        ctx.cls("table|seed None")
    if seed is not None:
        import contextlib
        import io
        with contextlib.redirect_stdout(io.StringIO()):
            loud = monitored(dsw.create_random_shuffles, 400 * n + 5000, k, seed, verbose=True)
        if loud.kind != "ok" or not np.array_equal(np.asarray(loud.value), t):
            ctx.fail("progress-output-changes-table", "create_random_shuffles(%d, %r, verbose=True) %s" % (
                k, seed, loud.describe() if loud.kind != "ok" else "differs from the table without progress output"))
        ctx.cls("table|with progress output")
    if sorted(map(tuple, t.tolist())) == [tuple(t[0].tolist())] * n and n > 4:
        ctx.cls("all rows identical (evidence only)")
    ctx.setadd("distinct-rows", {tuple(r) for r in t.tolist()})
    ctx.cls("k|%d" % k)
    ctx.done("table", case, k >= 2)


def check_table_roundtrip(ctx, case):
    import random as _r
    dsw = import_dsw()
    k = case["k"]
    rng = _r.Random(case["gseed"])
    acc = gens.arc_graph(rng, k, density=rng.choice([0.6, 0.8, 0.95]), forbid3=case["fast"])
    if acc is None:
        return
    live = G.live_vertices(acc)
    hi = [v for v in live if v >= 64]
    start = rng.choice(hi if hi and rng.random() < 0.8 else live)
    table = np.asarray(dsw.create_random_shuffles(k, case["seed"]))
    typ = case["start_type"]
    passed = start if typ == "int" or start > np.iinfo(getattr(np, typ)).max else getattr(np, typ)(start)
    where = "k=%d start=%d as %s, table seed %d, graph=%s, bits=%s, fast=%s" % (k, start, type(passed).__name__, case["seed"], G.acc_to_hex(acc), case["bits"], case["fast"])
    try:
        want, _d = oracles.ref_encode(case["bits"], acc, start, case["fast"], table)
    except oracles.RefUndefined:
        return
    before = table.copy()
    out = monitored(dsw.encode, 10 ** 7, np.array(case["bits"], dtype=int), acc, passed, is_faster=case["fast"], shuffles=table)
    if out.kind != "ok" or out.value != want:
        ctx.fail("digit-to-arc-map", "encode %s, the table's induced map gives %s; %s" % (out.describe(), want, where))
    else:
        dec = monitored(dsw.decode, 10 ** 7, out.value, len(case["bits"]), acc, passed, is_faster=case["fast"], shuffles=table)
        if dec.kind != "ok" or not bits_equal(dec.value, case["bits"]):
            ctx.fail("decode-does-not-invert", "decode(encode(bits)) %s; %s" % (dec.describe(), where))
        plain = monitored(dsw.decode, 10 ** 7, out.value, 4 * len(out.value) + 8, acc, passed, is_faster=False)
        if plain.kind != "ok":
            ctx.fail("acceptance-set-changed", "the strand written with the table is not accepted without it: %s; %s" % (plain.describe(), where))
    if not np.array_equal(table, before):
        ctx.fail("table-modified", "encode/decode changed the caller's shuffle table in place; %s" % where)
    ctx.cls("round trip with a library-made table|start as %s" % type(passed).__name__)
    ctx.done("table_roundtrip", case, True)


def check_induced(ctx, case):
    dsw = import_dsw()
    perm, pat = case["perm"], case["pattern"]
    k, start = 2, 1
    acc = G.complete(k)
    live = [j for j in range(4) if (pat >> j) & 1]
    for j in range(4):
        if j not in live:
            acc[start, j] = -1
    d = len(live)
    table = np.array([perm] * 16, dtype=int)
    table_before = table.copy()
    order = sorted(live, key=lambda j: perm[j])   # digit r -> live arc with r-th smallest table entry
    where = "table row %s, live arcs %s" % (perm, ["ACGT"[j] for j in live])
    firsts = []
    for r in range(d):
        value = r + d if d > 1 else 1 + r
        bits = oracles.value_bits(value, 4)
        out = monitored(dsw.encode, 10 ** 6, np.array(bits), acc, start, shuffles=table)
        if out.kind != "ok" or not isinstance(out.value, str) or not out.value:
            ctx.fail("encode-" + out.kind, "encode(value %d) %s; %s" % (value, out.describe(), where))
            continue
        first = out.value[0]
        firsts.append(first)
        if first != "ACGT"[order[r]]:
            ctx.fail("digit-to-arc-map", "normal mode: digit %d emits %s, expected %s (the live arc with the %d-th smallest entry); %s" % (
                r, first, "ACGT"[order[r]], r, where))
        dec = monitored(dsw.decode, 10 ** 6, out.value, 4, acc, start, shuffles=table)
        if dec.kind != "ok" or not bits_equal(dec.value, bits):
            ctx.fail("decode-does-not-invert", "decode(encode(value %d)) %s; %s" % (value, dec.describe(), where))
        ctx.evaluations += 1
    if d > 1 and len(set(firsts)) != d:
        ctx.fail("not-a-bijection", "digits 0..%d map to first nucleotides %s; %s" % (d - 1, firsts, where))
    if d in (2, 4):
        for r in range(d):
            bits = oracles.value_bits(r, 1 if d == 2 else 2) + [1, 0]
            out = monitored(dsw.encode, 10 ** 6, np.array(bits), acc, start, is_faster=True, shuffles=table)
            if out.kind != "ok" or not out.value or out.value[0] != "ACGT"[order[r]]:
                ctx.fail("digit-to-arc-map-fast", "fast mode: digit %d gives %s, expected first nucleotide %s; %s" % (
                    r, out.describe(), "ACGT"[order[r]], where))
            else:
                dec = monitored(dsw.decode, 10 ** 6, out.value, len(bits), acc, start, is_faster=True, shuffles=table)
                if dec.kind != "ok" or not bits_equal(dec.value, bits):
                    ctx.fail("decode-does-not-invert-fast", "fast decode(encode(%s)) %s; %s" % (bits, dec.describe(), where))
            ctx.evaluations += 1
        ctx.cls("fast-mode pattern")
    # acceptance set with and without the table
    for n in range(0, 4):
        for tup in itertools.product("ACGTNa", repeat=n):      # two symbols outside the alphabet: never part of a walk
            s = "".join(tup)
            a = monitored(dsw.decode, 10 ** 6, s, 8, acc, start, shuffles=table)
            b = monitored(dsw.decode, 10 ** 6, s, 8, acc, start)
            if (a.kind == "ok") != (b.kind == "ok"):
                ctx.fail("acceptance-set-changed", "decode(%r) %s with the table but %s without; %s" % (s, a.describe(), b.describe(), where))
            elif (a.kind == "ok") != G.walk(acc, start, s)["ok"]:
                ctx.fail("acceptance-differs-from-walks", "decode(%r) %s; walk oracle says %s; %s" % (s, a.describe(), G.walk(acc, start, s)["ok"], where))
    ctx.evaluations += 259
    if not np.array_equal(table, table_before):
        ctx.fail("table-modified", "encode/decode changed the caller's shuffle table in place: row %s became %s; %s" % (
            perm, table[start].tolist(), where))
    # G2: the same accessor and table objects, the live-arc pattern of the start vertex changed in place
    other = case["pattern"] % 15 + 1
    live2 = [j for j in range(4) if (other >> j) & 1]
    for j in range(4):
        acc[start, j] = (start * 4 + j) % 16 if j in live2 else -1
    order2 = sorted(live2, key=lambda j: perm[j])
    for r in range(len(live2)):
        value = r + len(live2) if len(live2) > 1 else 1 + r
        out = monitored(dsw.encode, 10 ** 6, np.array(oracles.value_bits(value, 4)), acc, start, shuffles=table)
        if out.kind != "ok" or not out.value or out.value[0] != "ACGT"[order2[r]]:
            ctx.fail("digit-to-arc-map-after-edit", "after the accessor was edited in place (live arcs %s -> %s) digit %d gives %s, expected %s; table row %s" % (
                ["ACGT"[j] for j in live], ["ACGT"[j] for j in live2], r, out.describe(), "ACGT"[order2[r]], perm))
            break
    ctx.cls("induced map re-checked after an in-place edit")
    ctx.cls("pattern size %d" % d)
    ctx.done("induced", case, d >= 2 and perm != [0, 1, 2, 3])


CHECKS = {"table_roundtrip": check_table_roundtrip, "table": check_table, "induced": check_induced}


def floors(agg, tier):
    out = []
    c = agg["classes"]
    for name, need in (("table|seeded", 200), ("table|seed None", 5), ("pattern size 1", 96), ("pattern size 2", 144),
                       ("pattern size 3", 96), ("pattern size 4", 24), ("fast-mode pattern", 168)):
        if c.get(name, 0) < need:
            out.append("%s observed %d < %d" % (name, c.get(name, 0), need))
    for name, need in (("seed passed as a numpy integer", 50), ("same seed requested again after the first table was scrambled", 100), ("induced map re-checked after an in-place edit", 300), ("round trip with a library-made table|start as uint8", 100)):
        if c.get(name, 0) < need:
            out.append("%s observed %d < %d" % (name, c.get(name, 0), need))
    if len(agg["sets"].get("distinct-rows", ())) < 24:
        out.append("only %d of the 24 permutations ever appeared as a table row" % len(agg["sets"].get("distinct-rows", ())))
    if agg["monitors"].get("audit-windows-observed", 0) < 40:
        out.append("audit hook observed %d calls" % agg["monitors"].get("audit-windows-observed", 0))
    return out
