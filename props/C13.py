"""C13 - vertex indices are k-mers and arcs are shift-append (DESIGN.md section 4, C13)."""
import numpy as np

import contextlib
import io

from vlib import alias, clock, contracts, graphs as G, gens
from vlib.base import import_dsw
from vlib.coding import monitored

ID = "C13"
LEVEL = "exploration"
TECHNIQUE = ("runtime monitoring of obtain_latters / obtain_formers / get_complete_accessor / number_to_dna / dna_to_number against "
             "string manipulation on k-mers (exhaustive for k <= 7), plus an icontract postcondition 'every entry is -1 or the "
             "j-th shift successor of its row' on every accessor-producing function while a graph workload runs")
LEVEL_TEXT = ("Exhaustive over all 21 844 vertices of the orders k = 1..7 (successors, predecessors, duality, index <-> k-mer, "
              "complete accessor rows); sampled for k = 8..12 (and k = 13..40 with Python ints, indices beyond 2^53 / 2^64) at the boundary indices (0, 4^k-1, powers of 4 +- 1) with Python and "
              "numpy integer index types; the accessor invariant is evaluated on every graph the library builds or converts in "
              "the workload.")
LEVEL_NOTE = "Trusts string slicing/concatenation on k-mers and base-4 Horner evaluation in vlib/graphs.py."
PLAN = {"quick": dict(shards=17, budget=100), "thorough": dict(shards=17, budget=300)}
SPECIAL_SHARD = True  # the last shard runs files of the repository's own suite in-process under the contracts
EXHAUSTIVE = ["all vertices of orders 1..7"]
RULE = ("For every k = 1..7 and every v < 4^k: obtain_latters(v, k) == [index(kmer[1:] + c) for c in ACGT], obtain_formers(v, k) "
        "== [index(c + kmer[:-1]) for c in ACGT], u in formers(v) <=> v in latters(u), number_to_dna(v, k) == kmer, "
        "dna_to_number(kmer) == v (both result types), get_complete_accessor(k)[v][j] == j-th successor; k = 8..12 sampled at "
        "0, 4^k-1, 4^i, 4^i +- 1 and random indices with int / numpy.int64 / numpy.int32 arguments. Contract on "
        "connect_valid_graph, connect_coding_graph, latter_map_to_accessor, adjacency_matrix_to_accessor, remove_nasty_arc, "
        "get_complete_accessor: every entry is -1 or succ_j(row); the complete accessor is requested again after an earlier result "
        "was edited in place (directly and through remove_nasty_arc). Non-trivial: k >= 2; distinct = hash of the case.")


def _shift_ok(acc):
    a = np.asarray(acc)
    if a.ndim != 2 or a.shape[1] != 4:
        return False
    n = a.shape[0]
    want = (np.arange(n)[:, None] * 4 + np.arange(4)[None, :]) % n
    return bool(np.all((a == -1) | (a == want)))


def accessor_is_shift_graph(result):
    return _shift_ok(result)


def second_is_shift_graph(result):
    return _shift_ok(result[1])


def first_is_shift_graph(result):
    return _shift_ok(result[0])


def setup(ctx):
    import_dsw()
    import dsw.spiderweb as sw
    import dsw.graphized as gz
    clock.install(lines=False)
    contracts.install(sw.connect_valid_graph, "connect_valid_graph", ensures=[accessor_is_shift_graph])
    contracts.install(sw.connect_coding_graph, "connect_coding_graph", ensures=[second_is_shift_graph])
    contracts.install(gz.latter_map_to_accessor, "latter_map_to_accessor", ensures=[accessor_is_shift_graph])
    contracts.install(gz.adjacency_matrix_to_accessor, "adjacency_matrix_to_accessor", ensures=[accessor_is_shift_graph])
    contracts.install(sw.remove_nasty_arc, "remove_nasty_arc", ensures=[first_is_shift_graph])
    contracts.install(gz.get_complete_accessor, "get_complete_accessor", ensures=[accessor_is_shift_graph])


def finish(ctx):
    for k, v in contracts.EVALS.items():
        ctx.mon("contract-evaluations:" + k, v)
    ctx.notes["contract_backend"] = contracts.BACKEND


def generate(ctx):
    rng = ctx.rng
    if ctx.special:
        yield "repo_tests", dict(files=ctx.pick(['tests/test_generating.py', 'tests/test_accessor_vs_latter_map.py', 'tests/test_accessor_vs_matrix.py'], ['tests/test_generating.py', 'tests/test_accessor_vs_latter_map.py', 'tests/test_accessor_vs_matrix.py']))
        return
    i = 0
    for k in range(1, 8):
        for v0 in range(0, 4 ** k, 64):
            if ctx.mine(i):
                yield "vertices", dict(k=k, lo=v0, hi=min(v0 + 64, 4 ** k), typ="int")
            i += 1
    for k in range(1, ctx.pick(7, 8)):
        for verbose in (False, True):
            if ctx.mine(i):
                yield "complete", dict(k=k, verbose=verbose)
            i += 1
    ctx.exhausted[EXHAUSTIVE[0]] = True
    for _ in range(ctx.pick(3, 12)):
        yield "complete_sequence", dict(k=rng.choice([1, 2, 2, 3, 4]), how=rng.choice(["direct", "remove_nasty_arc"]), rounds=rng.randint(1, 3),
                                        nonce=rng.getrandbits(20))
    if ctx.shard in (0, 1, 2, 3):
        yield "complete_sequence", dict(k=[5, 6, 6, 7][ctx.shard], how="direct", rounds=2, nonce=rng.getrandbits(20))
    for _ in range(ctx.pick(40, 400)):
        # long k-mers: pure index arithmetic far beyond what a graph in memory needs (indices past 2^53 from k = 27)
        k = rng.randint(13, 40)
        pts = [0, 4 ** k - 1, 4 ** (k - 1), 4 ** (k - 1) - 1, 2 ** 53 % 4 ** k, (2 ** 53 + 1) % 4 ** k, (2 ** 63 - 1) % 4 ** k, (2 ** 64 + 1) % 4 ** k]
        yield "sampled", dict(k=k, vs=sorted(set(pts)) + [rng.randrange(4 ** k) for _ in range(6)], typ="int")
    for _ in range(ctx.pick(60, 600)):
        k = rng.randint(8, 12)
        pts = {0, 4 ** k - 1}
        for e in range(1, k):
            pts |= {4 ** e, 4 ** e - 1, 4 ** e + 1}
        pts = sorted(p for p in pts if 0 <= p < 4 ** k)
        vs = rng.sample(pts, min(len(pts), 6)) + [rng.randrange(4 ** k) for _ in range(6)]
        yield "sampled", dict(k=k, vs=vs, typ=rng.choice(["int", "int64", "int32"]))
    for _ in range(ctx.pick(40, 400)):
        k = rng.choice([1, 2, 3, 3, 4])
        yield "library_graphs", dict(k=k, mask=G.mask_to_hex(gens.rand_mask(rng, k, rng.choice([0.5, 0.8, 0.95, 1.0]))),
                                     t=rng.choice([1, 2, 3]))


def _conv(v, typ):
    return int(v) if typ == "int" else getattr(np, typ)(v)


def _ints(xs):
    return [int(x) for x in xs]


def _vertex(ctx, dsw, k, v, typ):
    s = G.kmer(v, k)
    arg = _conv(v, typ)
    want_l = [G.index_of(s[1:] + c) for c in "ACGT"]
    want_f = [G.index_of(c + s[:-1]) for c in "ACGT"]
    ok = True
    out = monitored(dsw.obtain_latters, 1000, arg, k)
    if out.kind != "ok" or _ints(out.value) != want_l:
        ctx.fail("successors-differ", "obtain_latters(%r %s = %d, %d) %s, k-mer arithmetic says %s" % (s, typ, v, k, out.describe(), want_l))
        ok = False
    out = monitored(dsw.obtain_formers, 1000, arg, k)
    if out.kind != "ok" or _ints(out.value) != want_f:
        ctx.fail("predecessors-differ", "obtain_formers(%r %s = %d, %d) %s, k-mer arithmetic says %s" % (s, typ, v, k, out.describe(), want_f))
        ok = False
    elif v % 7 == 0:
        # G1: the caller edits the list it was handed; the next answer must still be the four prepend-k-mers
        for fn, name, want in ((dsw.obtain_formers, "obtain_formers", want_f), (dsw.obtain_latters, "obtain_latters", want_l)):
            first = fn(arg, k)
            checked, same, second = alias.repeat_after_scramble(fn, (arg, k), {}, first)
            if checked and not same:
                ctx.fail("answer-changes-after-result-was-edited", "%s(%d, %d) called again after the caller edited the first result in place returns %r, expected %s" % (
                    name, v, k, second, want))
            ctx.cls("repeated after the result was scrambled")
    elif ok:
        for u in _ints(out.value):
            o2 = monitored(dsw.obtain_latters, 1000, u, k)
            if o2.kind != "ok" or v not in _ints(o2.value):
                ctx.fail("duality-broken", "%d in formers(%d) but %d not in latters(%d) = %s (k=%d)" % (u, v, v, u, o2.describe(), k))
    if typ == "int":
        out = monitored(dsw.number_to_dna, 1000 + 50 * k, v, k)
        if out.kind != "ok" or out.value != s:
            ctx.fail("index-to-kmer-differs", "number_to_dna(%d, %d) %s, expected %r" % (v, k, out.describe(), s))
        out = monitored(dsw.dna_to_number, 1000 + 50 * k * k, s, is_string=False)
        if out.kind != "ok" or out.value != v:
            ctx.fail("kmer-to-index-differs", "dna_to_number(%r, is_string=False) %s, expected %d" % (s, out.describe(), v))
        out = monitored(dsw.dna_to_number, 1000 + 50 * k * k, s)
        if out.kind != "ok" or out.value != str(v):
            ctx.fail("kmer-to-index-differs", "dna_to_number(%r) %s, expected %r" % (s, out.describe(), str(v)))
    return ok


def check_vertices(ctx, case):
    dsw = import_dsw()
    k = case["k"]
    for v in range(case["lo"], case["hi"]):
        _vertex(ctx, dsw, k, v, case["typ"])
        ctx.done("vertex", dict(k=k, v=v, typ=case["typ"]), k >= 2)
    ctx.cls("exhaustive|k=%d" % k, case["hi"] - case["lo"])


def check_sampled(ctx, case):
    dsw = import_dsw()
    for v in case["vs"]:
        _vertex(ctx, dsw, case["k"], v, case["typ"])
        ctx.done("vertex", dict(k=case["k"], v=v, typ=case["typ"]), True)
    ctx.cls("sampled|k=%s" % (case["k"] if case["k"] <= 12 else ">12"), len(case["vs"]))
    ctx.cls("index-type|" + case["typ"], len(case["vs"]))


def check_complete(ctx, case):
    dsw = import_dsw()
    k = case["k"]
    with contextlib.redirect_stdout(io.StringIO()):
        out = monitored(dsw.get_complete_accessor, 100 * 4 ** k + 5000, k, verbose=bool(case.get("verbose")))
    if out.kind == "raised" and isinstance(out.exc, contracts.ContractBroken):
        ctx.fail("contract:" + out.exc.name, "get_complete_accessor(%d) returned an entry that is neither -1 nor the shift successor" % k)
    elif out.kind != "ok":
        ctx.fail("complete-" + out.kind, "get_complete_accessor(%d) %s" % (k, out.describe()))
    else:
        a = np.asarray(out.value)
        if a.shape != (4 ** k, 4) or not np.array_equal(a, G.complete(k)):
            ctx.fail("complete-accessor-differs", "get_complete_accessor(%d) is not the table of j-th successors" % k)
    ctx.cls("complete|k=%d%s" % (k, " verbose" if case.get("verbose") else ""))
    ctx.done("complete", case, k >= 2)


def check_complete_sequence(ctx, case):
    """Multi-step: a complete accessor handed out earlier is edited in place (directly, and by the documented in-place
    arc removal); the complete graph asked for afterwards must still hold the j-th successor in column j."""
    dsw = import_dsw()
    k = case["k"]
    rng = ctx.rng
    first = monitored(dsw.get_complete_accessor, 100 * 4 ** k + 5000, k)
    if first.kind != "ok":
        ctx.fail("complete-" + first.kind, "get_complete_accessor(%d) %s" % (k, first.describe()))
        return
    a = first.value
    for step in range(case["rounds"]):
        try:
            if case["how"] == "direct":
                for _ in range(3):
                    a[rng.randrange(4 ** k), rng.randrange(4)] = -1
            else:
                lm = dsw.accessor_to_latter_map(a)
                dsw.remove_nasty_arc(a, lm)
        except Exception:  # noqa - the edit is the harness's own action; a failing removal is not judged here
            pass
        again = monitored(dsw.get_complete_accessor, 100 * 4 ** k + 5000, k)
        if again.kind == "raised" and isinstance(again.exc, contracts.ContractBroken):
            ctx.fail("contract:" + again.exc.name, "second get_complete_accessor(%d): %s" % (k, again.exc.witness))
            return
        if again.kind != "ok" or not np.array_equal(np.asarray(again.value), G.complete(k)):
            ctx.fail("complete-accessor-differs-after-edit", "get_complete_accessor(%d) no longer returns the complete graph after an earlier result was edited in place (%s, round %d): %s" % (
                k, case["how"], step, again.describe() if again.kind != "ok" else "%d wrong entries" % int((np.asarray(again.value) != G.complete(k)).sum())))
            return
        a = again.value
    ctx.cls("complete|asked again after an in-place edit (%s)" % case["how"])
    ctx.done("complete_sequence", case, True)


def check_library_graphs(ctx, case):
    """Drive every accessor-producing function; the contract (installed in setup) is the oracle."""
    dsw = import_dsw()
    k, t = case["k"], case["t"]
    mask = G.hex_to_mask(k, case["mask"], dtype=bool)
    if not mask.any():
        return

    def step(fn, *a, **kw):
        """One library call; exceptions other than a broken contract are not this property's business (C03/C14/C19)."""
        try:
            return fn(*a, **kw)
        except contracts.ContractBroken:
            raise
        except Exception as e:  # noqa
            ctx.cls("library-graphs|step raised %s (not judged here)" % type(e).__name__)
            return None

    def drive():
        valid = step(dsw.connect_valid_graph, k, mask)
        step(dsw.connect_valid_graph, k, mask.astype(int) * np.array([ctx.rng.choice([1, 2, 3, 7]) for _ in range(len(mask))]))
        res = step(dsw.connect_coding_graph, k, mask, t)
        coding = None if res is None else res[1]
        if valid is not None:
            lm = step(dsw.accessor_to_latter_map, valid)
            if lm is not None:
                step(dsw.latter_map_to_accessor, lm, k)
                step(dsw.latter_map_to_accessor, lm, k, threshold=2)
                # a hand-built map of the same graph: keys and successor lists in arbitrary order
                keys = list(lm)
                ctx.rng.shuffle(keys)
                hand = {}
                for key in keys:
                    row = [int(x) for x in lm[key]]
                    ctx.rng.shuffle(row)
                    hand[int(key)] = row
                step(dsw.latter_map_to_accessor, hand, k)
            mat = step(dsw.accessor_to_adjacency_matrix, valid)
            if mat is not None:
                step(dsw.adjacency_matrix_to_accessor, mat)
                m0 = np.asarray(mat)
                # the same 0/1 matrix in the element types matrices are stored in (int8 / uint8 / bool files, float from loadtxt)
                for dt in ctx.rng.sample(["int8", "uint8", "bool", "int16", "float64", "int32"], 2):
                    step(dsw.adjacency_matrix_to_accessor, m0.astype(dt))
                    ctx.cls("library-graphs|matrix as " + dt)
                # a matrix with one cell outside the shift structure: whatever comes back (if anything) is still a shift graph
                n_v = len(m0)
                for _i in range(3):
                    u, w = ctx.rng.randrange(n_v), ctx.rng.randrange(n_v)
                    if w not in G.succs(u, k):
                        bad = m0.copy()
                        bad[u, w] = 1
                        step(dsw.adjacency_matrix_to_accessor, bad)
                        ctx.cls("library-graphs|matrix with a cell outside the shift structure")
        if coding is not None and k <= 3:
            a, m = coding.copy(), step(dsw.accessor_to_latter_map, coding)
            for _ in range(3):
                r = step(dsw.remove_nasty_arc, a, m) if m else None
                if r is None:
                    break
                a, m = r[0], r[1]
        return True

    out = monitored(drive, 10 ** 8)
    if out.kind == "raised" and isinstance(out.exc, contracts.ContractBroken):
        ctx.fail("contract:" + out.exc.name, "an accessor built by the library holds an entry that is neither -1 nor the shift successor: %s (k=%d mask=%s t=%d)" % (
            out.exc.witness, k, case["mask"], t))
    elif out.kind != "ok":
        ctx.cls("library-graphs|driver " + out.kind)
        ctx.notes.setdefault("driver_problem", out.describe())
    ctx.cls("library-graphs|driven")
    ctx.done("library_graphs", case, k >= 2)


def check_vertex(ctx, case):
    _vertex(ctx, import_dsw(), case["k"], case["v"], case["typ"])


def check_repo_tests(ctx, case):
    """The repository's own tests, in-process, with this property's contracts installed."""
    from vlib.coding import run_repo_tests
    rc, n = run_repo_tests(ctx, case["files"])
    ctx.mon("contract-evaluations-inside-repo-tests", n)
    if rc is None:
        ctx.cls("repo-tests|missing")
        return
    ctx.cls("repo-tests|run")
    if rc != 0:
        ctx.fail("repo-tests-under-contracts", "pytest exit %s on %s with the contracts installed (a contract fired inside the repository's own tests, or a test failed)" % (rc, case["files"]))
    ctx.done("repo_tests", case, n > 0)


CHECKS = {"repo_tests": check_repo_tests, "complete_sequence": check_complete_sequence, "vertex": check_vertex, "vertices": check_vertices, "sampled": check_sampled, "complete": check_complete, "library_graphs": check_library_graphs}


def floors(agg, tier):
    out = []
    if agg["monitors"].get("contract-evaluations-inside-repo-tests", 0) < (3 if tier == "quick" else 3):
        out.append("repository tests ran %d contract evaluations" % agg["monitors"].get("contract-evaluations-inside-repo-tests", 0))
    c, m = agg["classes"], agg["monitors"]
    for k in range(1, 8):
        if c.get("exhaustive|k=%d" % k, 0) != 4 ** k:
            out.append("order %d: %d of %d vertices enumerated" % (k, c.get("exhaustive|k=%d" % k, 0), 4 ** k))
    for fn in ("connect_valid_graph", "connect_coding_graph", "latter_map_to_accessor", "adjacency_matrix_to_accessor",
               "remove_nasty_arc", "get_complete_accessor"):
        key = [x for x in m if x.startswith("contract-evaluations:%s." % fn)]
        if not key or m[key[0]] < (5 if fn == "get_complete_accessor" else 30):
            out.append("accessor invariant on %s evaluated %d times" % (fn, m[key[0]] if key else 0))
    if c.get("complete|asked again after an in-place edit (direct)", 0) + c.get("complete|asked again after an in-place edit (remove_nasty_arc)", 0) < 20:
        out.append("complete accessor re-requested after an in-place edit fewer than 20 times")
    if c.get("repeated after the result was scrambled", 0) < 1000:
        out.append("result-scrambling repeats: %d < 1000" % c.get("repeated after the result was scrambled", 0))
    if c.get("complete|k=5 verbose", 0) < 1 or c.get("complete|k=6 verbose", 0) < 1:
        out.append("complete accessor with progress output at orders 5 and 6 not exercised")
    for name, need in (("library-graphs|matrix as int8", 100), ("library-graphs|matrix as float64", 100),
                       ("library-graphs|matrix with a cell outside the shift structure", 500)):
        if c.get(name, 0) < need:
            out.append("%s observed %d < %d" % (name, c.get(name, 0), need))
    if c.get("sampled|k=>12", 0) < 300:
        out.append("vertices of orders 13..40 sampled: %d < 300" % c.get("sampled|k=>12", 0))
    for typ in ("int64", "int32"):
        if c.get("index-type|" + typ, 0) < 50:
            out.append("index type %s observed %d" % (typ, c.get("index-type|" + typ, 0)))
    return out
