"""C07 - the path check is the documented VT function and sees every substitution (DESIGN.md section 4, C07)."""
import itertools

import numpy as np

from vlib import clock, contracts, graphs as G, gens, oracles
from vlib.base import import_dsw
from vlib.coding import monitored, is_strand

ID = "C07"
LEVEL = "fault_enumeration"
TECHNIQUE = ("runtime contract (icontract postcondition) on the real set_vt against an independent formula; exhaustive "
             "single-edit enumeration around every short strand; decode(neighbour, vt_check=original) observed to raise")
LEVEL_TEXT = ("Exhaustive for all strands of length 0..7 (thorough: 0..8) x check lengths {1,2,3,5} with every single substitution and every "
              "single C/G/T insertion/deletion; sampled for strands up to 10 000 nt and check lengths up to 64 (across the "
              "int64 boundary at 33). Held on all of them in this run.")
LEVEL_NOTE = "Trusts the 10-line VT formula in vlib/oracles.py (Python ints)."
PLAN = {"quick": dict(shards=17, budget=120), "thorough": dict(shards=17, budget=600)}
SPECIAL_SHARD = True  # the last shard runs files of the repository's own suite in-process under the contracts
EXHAUSTIVE = ["strands<=7 (quick) / <=8 (thorough) x n in {1,2,3,5} x all single edits"]
RULE = ("icontract ensure on dsw.set_vt (fires on the internal calls from encode/decode/repair_dna too): result == "
        "NUC[sum mod 4] + big-endian base-4 digits of (sum of 0-based ascent positions mod 4^(n-1)), length n. Cases: every "
        "strand over ACGT of length 0..7 (thorough 0..8) x n in {1,2,3,5} with all single substitutions, deletions of C/G/T and insertions "
        "of C/G/T (each neighbour must have a different check); random strands of length <= 10000 (quick 2000) and a few of 70000-150000 (ascent sums beyond 2^32) with n <= "
        "64; walks of complete / generated graphs whose every single-edit neighbour must be rejected by decode(..., "
        "vt_check=original) with ValueError. Non-trivial: strand length >= 2 and n >= 2; distinct = hash of (strand, n).")
NS_EXH = (1, 2, 3, 5)


def vt_is_formula(dna_sequence, vt_length, result):
    return isinstance(result, str) and result == oracles.vt(dna_sequence, vt_length)


def setup(ctx):
    import_dsw()
    import dsw.spiderweb as sw
    clock.install(lines=False)
    contracts.install(sw.set_vt, "set_vt", ensures=[vt_is_formula])


def finish(ctx):
    for k, v in contracts.EVALS.items():
        ctx.mon("contract-evaluations:" + k, v)


def neighbours(s):
    out = []
    for i, c in enumerate(s):
        for x in "ACGT":
            if x != c:
                out.append(("S", i, x, s[:i] + x + s[i + 1:]))
        if c != "A":
            out.append(("D", i, c, s[:i] + s[i + 1:]))
    for i in range(len(s) + 1):
        for x in "CGT":
            out.append(("I", i, x, s[:i] + x + s[i:]))
    return out


def generate(ctx):
    rng = ctx.rng
    if ctx.special:
        yield "repo_tests", dict(files=ctx.pick(['tests/test_coding.py', 'tests/test_repair.py'], ['tests/test_coding.py', 'tests/test_repair.py']))
        return
    max_len = ctx.pick(2000, 10000)
    for _ in range(ctx.pick(250, 3000)):
        kind = rng.choice(["random", "random", "ascending", "descending", "homopolymer", "two-symbol"])
        n_len = rng.choice([0, 1, 2, 3, 7, 30, 100, 400, rng.randint(0, max_len)])
        if rng.random() < ctx.pick(0.02, 0.01):   # ascent-position sums beyond 2^31 / 2^32 need very long strands
            n_len = rng.choice([70000, 100000, 150000])
        elif rng.random() < 0.03:                  # lengths just around powers of two / ten (block and window boundaries)
            base = rng.choice([256, 1024, 4096, 10000, 32768, 65536, 100000, 131072, 200000])
            n_len = base + rng.choice([-1, 0, 1, 1, 2])
        if kind == "random":
            s = gens.random_dna(rng, n_len)
        elif kind == "ascending":
            s = "".join("ACGT"[j % 4] for j in range(n_len))
        elif kind == "descending":
            s = "".join("TGCA"[j % 4] for j in range(n_len))
        elif kind == "homopolymer":
            s = rng.choice("ACGT") * n_len
        else:
            a, b = rng.sample("ACGT", 2)
            s = "".join(rng.choice(a + b) for _ in range(n_len))
        yield "formula", dict(s=s, n=rng.choice([1, 2, 3, 4, 5, 8, 16, 31, 32, 33, 34, 40, 64]), kind=kind)
    for _ in range(ctx.pick(40, 400)):
        k = rng.choice([1, 2, 3])
        if rng.random() < 0.4:
            acc = G.complete(k)
        else:
            acc, _ = gens.closed_graph(rng, k, rng.choice([1, 2, 3]))
            if acc is None:
                continue
        start = rng.choice(G.live_vertices(acc))
        w = G.random_walk(acc, start, rng.choice([0, 0] + list(range(1, 15))), rng)     # the empty strand (empty message) included
        yield "decode_rejects", dict(gens.graph_case(acc, k), start=int(start), walk=w, n=rng.choice([1, 2, 3, 5, 9, 33]),
                                     fast=rng.random() < 0.3)
    i = 0
    for n_len in range(0, ctx.pick(8, 9)):
        for tup in itertools.product("ACGT", repeat=n_len):
            if ctx.mine(i):
                yield "exhaustive", dict(s="".join(tup))
            i += 1
    ctx.exhausted[EXHAUSTIVE[0]] = True


def _set_vt(ctx, s, n):
    dsw = import_dsw()
    out = monitored(dsw.set_vt, 50 * (len(s) + n) + 2000, s, n)
    if out.kind == "raised" and isinstance(out.exc, contracts.ContractBroken):
        ctx.fail("contract:set_vt-differs-from-formula", "set_vt(%r, %d): %s, formula %s" % (
            s if len(s) < 80 else s[:80] + "...", n, out.exc.witness.get("result"), oracles.vt(s, n)))
        return None
    if out.kind != "ok":
        ctx.fail("set_vt-" + out.kind, "set_vt(%r, %d) %s" % (s if len(s) < 80 else s[:80] + "...", n, out.describe()))
        return None
    if not (is_strand(out.value) and len(out.value) == n):
        ctx.fail("set_vt-shape", "set_vt(.., %d) returned %r" % (n, out.value))
        return None
    return out.value


def check_exhaustive(ctx, case):
    s = case["s"]
    nbs = neighbours(s)
    for n in NS_EXH:
        base = _set_vt(ctx, s, n)
        if base is None:
            ctx.done("exhaustive", dict(s=s, n=n), False)
            continue
        for kind, pos, ch, t in nbs:
            c = _set_vt(ctx, t, n)
            if c is not None and c == base:
                ctx.fail("edit-not-seen", "check %s unchanged by %s%d%s: %r -> %r (n=%d)" % (base, kind, pos, ch, s, t, n))
            ctx.cls("neighbour|" + kind)
            ctx.evaluations += 1
        ctx.done("exhaustive", dict(s=s, n=n), len(s) >= 2 and n >= 2)
    ctx.cls("strand-length|%d" % len(s))


def check_formula(ctx, case):
    s, n = case["s"], case["n"]
    c = _set_vt(ctx, s, n)
    if c is not None and c != oracles.vt(s, n):
        ctx.fail("set_vt-differs-uncontracted", "set_vt -> %s, formula %s" % (c, oracles.vt(s, n)))
    ctx.cls("n>=33" if n >= 33 else "n<33")
    ctx.cls("kind|" + case["kind"])
    ctx.obs("max_strand_length", len(s))
    ctx.done("formula", dict(s=len(s), h=hash(s), n=n), len(s) >= 2 and n >= 2, sample=dict(s=s[:60], length=len(s), n=n, check=c))


def check_decode_rejects(ctx, case):
    dsw = import_dsw()
    acc = gens.acc_of(case)
    w, n, start = case["walk"], case["n"], case["start"]
    base = _set_vt(ctx, w, n)
    if base is None:
        return
    # the width a real caller passes: exactly what the walk carries (fast mode) / what its value needs (normal mode)
    fast = case["fast"] and 3 not in set(G.out_degrees(acc).tolist())
    digits = oracles.walk_digits(w, acc, start)
    exact = len(oracles.fast_bits(digits)) if fast else (max(oracles.digits_value(digits).bit_length(), 1) if w else 0)
    if not w:
        ctx.cls("decode-rejects|empty strand")
    widths = [exact, exact, 4 * len(w) + 8]
    ok = monitored(dsw.decode, 10 ** 7, w, 4 * len(w) + 2, acc, start, vt_check=base, is_faster=False)
    if ok.kind != "ok":
        ctx.fail("decode-rejects-own-check", "decode(walk %s, vt_check=%s) %s" % (w, base, ok.describe()))
    for kind, pos, ch, t in neighbours(w):
        form = ctx.rng.choice(["str", "str", "str", "numpy.str_"])          # checks kept in a numpy array of strings come out as numpy.str_
        passed = np.str_(base) if form == "numpy.str_" else base
        out = monitored(dsw.decode, 10 ** 7, t, ctx.rng.choice(widths), acc, start, vt_check=passed, is_faster=fast)
        ctx.cls("decode-rejects|check passed as " + form)
        ctx.evaluations += 1
        if out.kind == "ok":
            ctx.fail("decode-accepts-edited-strand", "decode(%r, vt_check=%s of %r) returned (edit %s%d%s)" % (t, base, w, kind, pos, ch))
        elif out.kind == "raised" and isinstance(out.exc, contracts.ContractBroken):
            ctx.fail("contract:set_vt-differs-from-formula", "inside decode(%r): %s" % (t, out.exc.witness))
        elif out.kind == "raised" and not isinstance(out.exc, ValueError):
            ctx.fail("decode-wrong-exception", "decode(%r, vt_check=%s) %s" % (t, base, out.describe()))
        if G.walk(acc, start, t)["ok"]:
            ctx.cls("decode-rejected-by-check-only")  # the neighbour is still a walk: only the check can reject it
    ctx.done("decode_rejects", case, len(w) >= 2 and n >= 2)


def check_repo_tests(ctx, case):
    """The repository's own tests, in-process, with this property's contracts installed."""
    from vlib.coding import run_repo_tests
    rc, n = run_repo_tests(ctx, case["files"])
    ctx.mon("contract-evaluations-inside-repo-tests", n)
    if rc is None:
        ctx.cls("repo-tests|missing")
        return
    ctx.cls("repo-tests|run")
    if rc != 0:
        ctx.fail("repo-tests-under-contracts", "pytest exit %s on %s with the contracts installed (a contract fired inside the repository's own tests, or a test failed)" % (rc, case["files"]))
    ctx.done("repo_tests", case, n > 0)


CHECKS = {"repo_tests": check_repo_tests, "exhaustive": check_exhaustive, "formula": check_formula, "decode_rejects": check_decode_rejects}


def floors(agg, tier):
    out = []
    if agg["monitors"].get("contract-evaluations-inside-repo-tests", 0) < (3 if tier == "quick" else 3):
        out.append("repository tests ran %d contract evaluations" % agg["monitors"].get("contract-evaluations-inside-repo-tests", 0))
    c, m = agg["classes"], agg["monitors"]
    if m.get("contract-evaluations:set_vt.ensure.vt_is_formula", 0) < 100000:
        out.append("set_vt contract evaluated %d times" % m.get("contract-evaluations:set_vt.ensure.vt_is_formula", 0))
    for name, need in (("neighbour|S", 50000), ("neighbour|I", 50000), ("neighbour|D", 10000), ("n>=33", 50),
                       ("decode-rejected-by-check-only", 100), ("decode-rejects|empty strand", 30), ("decode-rejects|check passed as numpy.str_", 500)):
        if c.get(name, 0) < need:
            out.append("%s observed %d < %d" % (name, c.get(name, 0), need))
    return out
