"""C15 - string big-number arithmetic equals integer arithmetic (DESIGN.md section 4, C15)."""
import numpy as np

from vlib import clock, contracts, gens, graphs as G
from vlib.base import import_dsw
from vlib.coding import monitored

ID = "C15"
LEVEL = "exploration"
TECHNIQUE = ("runtime contracts (icontract postconditions) on the four real digit-serial helpers against Python int arithmetic, "
             "driven exhaustively over 0..9999 x operands 0..9 and by boundary-class generators; a schoolbook model measures "
             "which (carry, digit, operand, position-class) states were exercised")
LEVEL_TEXT = ("Exhaustive for all numbers 0..9999 x operand digits 0..9 x four operations (so every model-reachable carry/borrow "
              "state of the schoolbook algorithms is exercised); sampled for lengths up to 1 300 digits with carry/borrow chains "
              "of every length 0..20 and > 1000. The contracts also fire on the internal calls made by encode/decode.")
LEVEL_NOTE = "Trusts Python's arbitrary-precision int and str(int)."
PLAN = {"quick": dict(shards=17, budget=100), "thorough": dict(shards=17, budget=300)}
SPECIAL_SHARD = True  # the last shard runs files of the repository's own suite in-process under the contracts
EXHAUSTIVE = ["numbers 0..9999 x operands 0..9 x {add, sub, mul, div}"]
RULE = ("icontract ensure on calculus_addition / _subtraction / _multiplication / _division: result is the canonical decimal "
        "string of the exact int result (subtraction judged when the result >= 0; division by 0 is documented to return "
        "('0','0') and is not judged). Inputs: every number 0..9999 x operand 0..9; strings of 1..1300 digits of the classes "
        "random, 99..9, 10..0, 10..0+d, 0/9 runs, chains of exactly c nines/zeros for c = 0..20 and c > 1000. State coverage: "
        "(carry-or-borrow-in, digit, operand, position class in {only, least, inner, most}) tuples of a schoolbook model. "
        "Non-trivial: the number has >= 2 digits and the operand is >= 2 (>= 1 for add/sub); distinct = hash of (op, number, base)."
        " Also: 'limb numbers' (aligned blocks of width 1..20 landing exactly on, below or above 10^b under x2..x9), neighbourhoods of 2^31, 2^32, 2^53, 2^63, 2^64 and 10^9..10^20, and valid calls right after a call with malformed text.")

OPS = ("add", "sub", "mul", "div")
STATES = {op: set() for op in OPS}


def _canon(x):
    return isinstance(x, str) and x.isdigit() and (x == "0" or x[0] != "0")


def sum_is_exact(number, base, result):
    return _canon(result) and result == str(int(number) + int(base))


def difference_is_exact(number, base, result):
    if int(number) - int(base) < 0:
        return True
    return _canon(result) and result == str(int(number) - int(base))


def product_is_exact(number, base, result):
    return _canon(result) and result == str(int(number) * int(base))


def quotient_and_remainder_are_exact(number, base, result):
    if int(base) == 0:
        return True
    q, r = divmod(int(number), int(base))
    return isinstance(result, tuple) and len(result) == 2 and _canon(result[0]) and _canon(result[1]) \
        and result[0] == str(q) and result[1] == str(r)


def setup(ctx):
    import_dsw()
    import dsw.operation as op
    clock.install(lines=False)
    contracts.install(op.calculus_addition, "add", ensures=[sum_is_exact])
    contracts.install(op.calculus_subtraction, "sub", ensures=[difference_is_exact])
    contracts.install(op.calculus_multiplication, "mul", ensures=[product_is_exact])
    contracts.install(op.calculus_division, "div", ensures=[quotient_and_remainder_are_exact])


def finish(ctx):
    for k, v in contracts.EVALS.items():
        ctx.mon("contract-evaluations:" + k, v)
    for op in OPS:
        ctx.setadd("states:" + op, STATES[op])
    ctx.notes["contract_backend"] = contracts.BACKEND


# ---- schoolbook model: which internal states does an input exercise? ------------------------------------------------

def _pos(i, n):
    if n == 1:
        return "only"
    return "least" if i == n - 1 else ("most" if i == 0 else "inner")


def model_states(op, number, base):
    """Set of (carry/borrow/remainder-in, digit, operand, position class) and the longest carry/borrow chain."""
    ds = [int(c) for c in number]
    b = int(base)
    n = len(ds)
    out = set()
    chain = best = 0
    if op == "add":
        carry = 0
        for i in range(n - 1, -1, -1):
            o = b if i == n - 1 else 0
            out.add((carry, ds[i], o, _pos(i, n)))
            carry = 1 if ds[i] + o + carry >= 10 else 0
            chain = chain + 1 if carry else 0
            best = max(best, chain)
    elif op == "sub":
        borrow = 0
        for i in range(n - 1, -1, -1):
            o = b if i == n - 1 else 0
            out.add((borrow, ds[i], o, _pos(i, n)))
            borrow = 1 if ds[i] - o - borrow < 0 else 0
            chain = chain + 1 if borrow else 0
            best = max(best, chain)
    elif op == "mul":
        carry = 0
        for i in range(n - 1, -1, -1):
            out.add((carry, ds[i], b, _pos(i, n)))
            carry = (ds[i] * b + carry) // 10
            chain = chain + 1 if carry else 0
            best = max(best, chain)
    else:
        rem = 0
        for i in range(n):
            out.add((rem, ds[i], b, _pos(i, n)))
            rem = (rem * 10 + ds[i]) % b if b else 0
            chain = chain + 1 if rem else 0
            best = max(best, chain)
    return out, best


def generate(ctx):
    rng = ctx.rng
    if ctx.special:
        yield "repo_tests", dict(files=ctx.pick(['tests/test_operations.py', 'tests/test_number_vs_binary_message.py'], ['tests/test_operations.py', 'tests/test_number_vs_binary_message.py', 'tests/test_number_vs_dna_sequence.py', 'tests/test_coding.py']))
        return
    i = 0
    for lo in range(0, 10000, 50):
        if ctx.mine(i):
            yield "block", dict(lo=lo, hi=lo + 50)
        i += 1
    ctx.exhausted[EXHAUSTIVE[0]] = True
    # limb grid: for every block width b, every multiplier m and every triple of boundary block values, the number
    # lead | hi | mid | lo with blocks aligned from the right - the inputs on which block-wise decimal arithmetic of any
    # limb width loses or misplaces a carry
    gi = 0
    for b in list(range(1, 21)) + [32, 64]:
        top = 10 ** b
        for m in range(2, 10):
            pool = sorted({0, 1, top - 1, top // m, top // m + 1, (top - 1) // m})
            if ctx.mine(gi):
                yield "limb_grid", dict(b=b, m=m, pool=[str(x) for x in pool])
            gi += 1
    max_len = 1300
    for _ in range(ctx.pick(250, 2500)):
        kind = rng.choice(["random", "nines", "tenpow", "tenpow+d", "runs", "chain", "chain", "longchain", "machine", "limbs", "limbs", "limbs"])
        n = rng.choice([1, 2, 3, 5, 17, 18, 19, 20, 21, 40, 100, 300, 639, 640, 641, rng.randint(1, max_len)])
        if kind == "random":
            s = str(rng.randint(1, 9)) + "".join(rng.choice("0123456789") for _ in range(n - 1))
        elif kind == "nines":
            s = "9" * n
        elif kind == "tenpow":
            s = "1" + "0" * (n - 1)
        elif kind == "tenpow+d":
            s = "1" + "0" * max(n - 2, 0) + rng.choice("0123456789")
        elif kind == "runs":
            s = ""
            while len(s) < n:
                s += rng.choice("09") * rng.randint(1, 7)
            s = (rng.choice("123456789") + s)[:max(n, 1)]
        elif kind == "limbs":
            s = gens.limb_number(rng)
        elif kind == "machine":   # neighbourhoods of machine-word and float-mantissa limits
            base = rng.choice([2 ** 31, 2 ** 32, 2 ** 53, 2 ** 63, 2 ** 64, 10 ** 9, 10 ** 15, 10 ** 16, 10 ** 17, 10 ** 18, 10 ** 19, 10 ** 20])
            s = str(max(0, base * rng.choice([1, 1, 1, 2, 5, 9]) + rng.randint(-12, 12)))
        elif kind == "chain":
            c = rng.randint(0, 20)
            fill = rng.choice("09")
            s = rng.choice("12345678") + rng.choice("12345678") * rng.randint(0, 3) + fill * c + rng.choice("0123456789")
        else:
            c = rng.randint(1001, 1290)
            s = rng.choice("12345678") + rng.choice("09") * c + rng.choice("0123456789")
        yield "numbers", dict(s=s, kind=kind)
    if ctx.shard == 2 or (not ctx.quick() and ctx.shard < 4):
        # one borrow / carry chain of 66 000 digits (a recursion per zero would exhaust the stack) - with the trap lifted,
        # because these strings are far beyond any int<->str limit anyway
        yield "huge_chain", dict(zeros=66000 + rng.randint(0, 500))
    for _ in range(ctx.pick(20, 200)):
        yield "poison", dict(bad=rng.choice(["12.5", "-5", "1,000,000", "1e6", "0x1F", " 42", "4 2", "abc", "", "12a4", "１２"]),
                             good=[gens.limb_number(rng, 3) if rng.random() < 0.5 else str(rng.randrange(10 ** rng.randint(1, 30))) for _ in range(4)],
                             op=rng.choice(OPS), b=str(rng.randint(0, 9)))
    for _ in range(ctx.pick(6, 40)):
        yield "via_coding", dict(k=rng.choice([1, 2, 3]), bits=[rng.randint(0, 1) for _ in range(rng.choice([16, 64, 200]))],
                                 start=0)


def _call(ctx, dsw, op, number, base):
    fn = {"add": dsw.calculus_addition, "sub": dsw.calculus_subtraction, "mul": dsw.calculus_multiplication,
          "div": dsw.calculus_division}[op]
    if op == "sub" and int(number) < int(base):
        return
    out = monitored(fn, 40 * len(number) + 2000, number, base)
    want = {"add": lambda: str(int(number) + int(base)), "sub": lambda: str(int(number) - int(base)),
            "mul": lambda: str(int(number) * int(base)),
            "div": lambda: tuple(map(str, divmod(int(number), int(base)))) if int(base) else ("0", "0")}[op]()
    shown = number if len(number) <= 60 else "%s...(%d digits)" % (number[:40], len(number))
    if out.kind == "raised" and isinstance(out.exc, contracts.ContractBroken):
        ctx.fail("contract:%s-not-exact" % op, "%s(%s, %s) returned %s, exact result %s" % (op, shown, base, out.exc.witness.get("result"), str(want)[:80]),
                 "one", dict(op=op, number=number, base=base))
    elif out.kind != "ok":
        ctx.fail("%s-%s" % (op, out.kind), "%s(%s, %s) %s" % (op, shown, base, out.describe()), "one", dict(op=op, number=number, base=base))
    elif out.value != want and not (op == "div" and int(base) == 0):
        ctx.fail("%s-differs-uncontracted" % op, "%s(%s, %s) = %r, exact %r" % (op, shown, base, out.value, want), "one", dict(op=op, number=number, base=base))
    st, chain = model_states(op, number, base)
    STATES[op] |= st
    ctx.cls("%s|chain %s" % (op, chain if chain <= 20 else (">1000" if chain > 1000 else "21..1000")))
    ctx.obs("max_digits", len(number))
    nontrivial = len(number) >= 2 and int(base) >= (1 if op in ("add", "sub") else 2)
    ctx.done("one", dict(op=op, number=number if len(number) < 40 else [len(number), hash(number)], base=base), nontrivial,
             sample=dict(op=op, number=shown, base=base))


def check_block(ctx, case):
    dsw = import_dsw()
    for x in range(case["lo"], case["hi"]):
        for b in range(10):
            for op in OPS:
                _call(ctx, dsw, op, str(x), str(b))


def check_limb_grid(ctx, case):
    dsw = import_dsw()
    b, m = case["b"], case["m"]
    pool = [x.zfill(b) for x in case["pool"]]
    n = 0
    for hi in pool:
        for mid in pool:
            for lo in pool:
                for lead in ("", "7"):
                    s = (lead + hi + mid + lo).lstrip("0") or "0"
                    for op in OPS:
                        for base in ({str(m), "9"} if op == "mul" else {str(m)} if op == "div" else {str(m), "9"}):
                            _call(ctx, dsw, op, s, base)
                            n += 1
    ctx.cls("limb grid|block width %d" % b)


def check_numbers(ctx, case):
    dsw = import_dsw()
    for b in range(10):
        for op in OPS:
            _call(ctx, dsw, op, case["s"], str(b))
    ctx.cls("kind|" + case["kind"])


def check_one(ctx, case):
    _call(ctx, import_dsw(), case["op"], case["number"], case["base"])


def check_poison(ctx, case):
    """A call with text that is not a decimal number (whatever it does - the property does not say) must not disturb the
    valid calls that follow it."""
    dsw = import_dsw()
    fn = {"add": dsw.calculus_addition, "sub": dsw.calculus_subtraction, "mul": dsw.calculus_multiplication,
          "div": dsw.calculus_division}[case["op"]]
    try:
        fn(case["bad"], case["b"])
    except Exception:  # noqa - outside the property
        pass
    for g in case["good"]:
        for op in OPS:
            _call(ctx, dsw, op, g, case["b"])
    ctx.cls("valid calls after a call with malformed text")


def check_huge_chain(ctx, case):
    dsw = import_dsw()
    z = case["zeros"]
    for op, number, base, want in (("sub", "1" + "0" * z, "1", "9" * z), ("add", "9" * z, "1", "1" + "0" * z),
                                   ("sub", "47" + "0" * z + "2", "5", "46" + "9" * z + "7")):
        fn = dsw.calculus_subtraction if op == "sub" else dsw.calculus_addition
        with clock.budget(10 ** 9):
            try:
                got = fn(number, base)
            except Exception as e:  # noqa
                ctx.fail("%s-raised" % op, "%s on a %d-digit number with a %d-digit %s chain raised %s: %s" % (
                    op, len(number), z, "borrow" if op == "sub" else "carry", type(e).__name__, str(e)[:80]))
                continue
        if got != want:
            ctx.fail("%s-differs-uncontracted" % op, "%s on a %d-digit chain differs from the exact result" % (op, z))
    ctx.cls("chain of more than 65536 digits")
    ctx.done("huge_chain", case, True)


def check_via_coding(ctx, case):
    """The contracts also guard the helpers' internal use by encode/decode."""
    dsw = import_dsw()
    before = sum(contracts.EVALS.values())
    acc = G.complete(case["k"])
    acc[0, 3] = -1  # an out-degree-3 vertex: division by 3
    out = monitored(dsw.encode, 10 ** 8, np.array(case["bits"]), acc, case["start"])
    if out.kind == "raised" and isinstance(out.exc, contracts.ContractBroken):
        ctx.fail("contract:helper-not-exact-inside-encode", str(out.exc.witness))
    elif out.kind == "ok":
        dec = monitored(dsw.decode, 10 ** 8, out.value, len(case["bits"]), acc, case["start"])
        if dec.kind == "raised" and isinstance(dec.exc, contracts.ContractBroken):
            ctx.fail("contract:helper-not-exact-inside-decode", str(dec.exc.witness))
    ctx.mon("contract-evaluations-inside-encode/decode", sum(contracts.EVALS.values()) - before)
    ctx.done("via_coding", case, True)


def check_repo_tests(ctx, case):
    """The repository's own tests, in-process, with this property's contracts installed."""
    from vlib.coding import run_repo_tests
    rc, n = run_repo_tests(ctx, case["files"])
    ctx.mon("contract-evaluations-inside-repo-tests", n)
    if rc is None:
        ctx.cls("repo-tests|missing")
        return
    ctx.cls("repo-tests|run")
    if rc != 0:
        ctx.fail("repo-tests-under-contracts", "pytest exit %s on %s with the contracts installed (a contract fired inside the repository's own tests, or a test failed)" % (rc, case["files"]))
    ctx.done("repo_tests", case, n > 0)


CHECKS = {"repo_tests": check_repo_tests, "huge_chain": check_huge_chain, "limb_grid": check_limb_grid, "poison": check_poison, "block": check_block, "numbers": check_numbers, "one": check_one, "via_coding": check_via_coding}


def reachable_states():
    """Model-reachable state tuples, from the model itself over 0..9999 x 0..9 (4 digits reach every position class)."""
    out = {op: set() for op in OPS}
    for x in list(range(0, 1200)) + list(range(8800, 10000)) + list(range(1200, 8800, 7)):
        for b in range(10):
            for op in OPS:
                if op == "sub" and x < b:
                    continue
                out[op] |= model_states(op, str(x), str(b))[0]
    return out


def floors(agg, tier):
    out = []
    if agg["monitors"].get("contract-evaluations-inside-repo-tests", 0) < (100 if tier == "quick" else 100):
        out.append("repository tests ran %d contract evaluations" % agg["monitors"].get("contract-evaluations-inside-repo-tests", 0))
    c, m = agg["classes"], agg["monitors"]
    for op in OPS:
        key = [x for x in m if x.startswith("contract-evaluations:%s." % op)]
        if not key or m[key[0]] < 100000:
            out.append("%s contract evaluated %d times" % (op, m[key[0]] if key else 0))
    for op in ("add", "sub", "mul"):
        missing = [n for n in range(0, 21) if c.get("%s|chain %d" % (op, n), 0) == 0]
        if missing:
            out.append("%s: carry/borrow chain lengths never exercised: %s" % (op, missing))
    for bw in (9, 15, 18, 64):
        if c.get("limb grid|block width %d" % bw, 0) < 8:
            out.append("limb grid for block width %d: %d of 8 multipliers" % (bw, c.get("limb grid|block width %d" % bw, 0)))
    for name, need in (("chain of more than 65536 digits", 1), ("kind|limbs", 50), ("valid calls after a call with malformed text", 100)):
        if c.get(name, 0) < need:
            out.append("%s observed %d < %d" % (name, c.get(name, 0), need))
    for op in ("add", "sub"):
        if c.get("%s|chain >1000" % op, 0) == 0:
            out.append("%s: no chain longer than 1000" % op)
    reach = reachable_states()
    for op in OPS:
        seen = {tuple(__import__("json").loads(x)) for x in agg["sets"].get("states:" + op, ())}
        want = reach[op]
        cov = len(seen & want) / max(len(want), 1)
        agg["notes"]["state-coverage:" + op] = "%d of %d model-reachable (carry, digit, operand, position) states" % (len(seen & want), len(want))
        if cov < 0.9:
            out.append("%s: only %d of %d model-reachable states exercised" % (op, len(seen & want), len(want)))
    if m.get("contract-evaluations-inside-encode/decode", 0) < 1000:
        out.append("contracts evaluated %d times inside encode/decode" % m.get("contract-evaluations-inside-encode/decode", 0))
    return out
